//! Native table generator: runs the real automata construction (which CBMC cannot execute
//! symbolically in reasonable time) and dumps the resulting tables as JSON for the SMT
//! encodings and the generated Kani tables.
//!
//!   tablegen c15            expressions (JSON lines on stdin) -> compiled DFA dumps (JSON lines)
//!   tablegen c15-run        {"expr":..,"input":[bytes]} lines -> real DFA verdicts
//!   tablegen automata       dumps of the production event / command / utf8 automata
use serde_json::{Value, json};
use std::io::{BufRead, Write};
use surf_n_term::automata::{DFA, NFA};
use surf_n_term::decoder::verif_hooks as dh;

/// build an NFA through the public combinator API
fn build(expr: &Value) -> NFA<usize> {
    let kind = expr["k"].as_str().expect("kind");
    match kind {
        "lit" => NFA::from(expr["s"].as_str().expect("literal")),
        "pred" => {
            // predicate class: the bytes listed in "set"
            let set: Vec<u8> = expr["set"].as_array().expect("set").iter().map(|v| v.as_u64().unwrap() as u8).collect();
            NFA::predicate(move |b| set.contains(&b))
        }
        "empty" => NFA::empty(),
        "nothing" => NFA::nothing(),
        "digit" => NFA::digit(),
        "number" => NFA::number(),
        "seq" => NFA::sequence(expr["xs"].as_array().expect("xs").iter().map(build)),
        "alt" => NFA::choice(expr["xs"].as_array().expect("xs").iter().map(build)),
        "opt" => build(&expr["x"]).optional(),
        "some" => build(&expr["x"]).some(),
        "many" => build(&expr["x"]).many(),
        "add" => build(&expr["xs"][0]) + build(&expr["xs"][1]),
        "or" => build(&expr["xs"][0]) | build(&expr["xs"][1]),
        // choice of tagged alternatives: alternative i carries tag i
        "tagged" => NFA::choice(
            expr["xs"].as_array().expect("xs").iter().enumerate().map(|(i, e)| build(e).tag_stop_state(i)),
        ),
        other => panic!("unknown expression kind {other}"),
    }
}

fn dump_dfa(dfa: &DFA<usize>) -> Value {
    let (start, lang_size, table, infos) = dfa.verif_raw();
    let size = dfa.size();
    let mut tags = Vec::new();
    for index in 0..size {
        let info = dfa.info(surf_n_term::automata::verif_dfa_state(index));
        tags.push(info.tags.iter().copied().collect::<Vec<usize>>());
    }
    json!({
        "start": start,
        "lang_size": lang_size,
        "size": size,
        "table": table.iter().map(|t| t.map(|v| v as i64).unwrap_or(-1)).collect::<Vec<i64>>(),
        "accepting": infos.iter().map(|i| i.0).collect::<Vec<bool>>(),
        "terminal": infos.iter().map(|i| i.1).collect::<Vec<bool>>(),
        "tags": tags,
    })
}

fn cmd_c15() {
    let stdin = std::io::stdin();
    let stdout = std::io::stdout();
    let mut out = stdout.lock();
    for line in stdin.lock().lines() {
        let line = line.expect("line");
        if line.trim().is_empty() {
            continue;
        }
        let expr: Value = serde_json::from_str(&line).expect("json");
        let nfa = build(&expr);
        let nfa_size = nfa.size();
        let dfa = nfa.compile();
        let mut dump = dump_dfa(&dfa);
        dump["nfa_size"] = json!(nfa_size);
        writeln!(out, "{}", dump).unwrap();
    }
}

fn cmd_c15_run() {
    let stdin = std::io::stdin();
    for line in stdin.lock().lines() {
        let line = line.expect("line");
        if line.trim().is_empty() {
            continue;
        }
        let req: Value = serde_json::from_str(&line).expect("json");
        let dfa = build(&req["expr"]).compile();
        let input: Vec<u8> = req["input"].as_array().expect("input").iter().map(|v| v.as_u64().unwrap() as u8).collect();
        let state = dfa.transition_many(dfa.start(), input.iter().copied());
        let tags: Vec<usize> = state.map(|s| dfa.info(s).tags.iter().copied().collect()).unwrap_or_default();
        println!(
            "{}",
            json!({"matches": dfa.matches(input.iter().copied()), "dead": state.is_none(), "tags": tags,
                   "terminal": state.map(|s| dfa.info(s).is_terminal)})
        );
    }
}

fn dump_matcher(dump: dh::Dump) -> Value {
    let infos: Vec<Value> = dump
        .infos
        .iter()
        .map(|(acc, term, tags)| {
            let tags: Vec<Value> = tags
                .iter()
                .map(|t| match t {
                    dh::DumpTag::Item(s) => json!({"item": s}),
                    dh::DumpTag::Matcher(i) => json!({"matcher": i}),
                })
                .collect();
            json!({"accepting": acc, "terminal": term, "tags": tags})
        })
        .collect();
    json!({
        "start": dump.start,
        "lang_size": dump.lang_size,
        "table": dump.table.iter().map(|t| t.map(|v| v as i64).unwrap_or(-1)).collect::<Vec<i64>>(),
        "infos": infos,
        "matchers": dump.matchers,
    })
}

fn cmd_automata() {
    let event = dump_matcher(dh::event_automata_dump());
    let command = dump_matcher(dh::command_automata_dump());
    let (start, lang_size, table, infos) = dh::utf8_automata_dump();
    let utf8 = json!({
        "start": start, "lang_size": lang_size,
        "table": table.iter().map(|t| t.map(|v| v as i64).unwrap_or(-1)).collect::<Vec<i64>>(),
        "accepting": infos.iter().map(|i| i.0).collect::<Vec<bool>>(),
        "terminal": infos.iter().map(|i| i.1).collect::<Vec<bool>>(),
    });
    let names: Vec<String> = (0..dh::EVENT_MATCHERS).map(dh::event_matcher_name).collect();
    println!("{}", json!({"event": event, "command": command, "utf8": utf8, "hook_event_matcher_names": names}));
}

/// run the real public decoders over byte strings: {"kind": "command"|"event", "bytes": [...]}
fn cmd_decode() {
    use surf_n_term::decoder::{Decoder, TTYCommandDecoder, TTYEventDecoder};
    let stdin = std::io::stdin();
    for line in stdin.lock().lines() {
        let line = line.expect("line");
        if line.trim().is_empty() {
            continue;
        }
        let req: Value = serde_json::from_str(&line).expect("json");
        let bytes: Vec<u8> = req["bytes"].as_array().expect("bytes").iter().map(|v| v.as_u64().unwrap() as u8).collect();
        let mut items = Vec::new();
        let mut cursor = std::io::Cursor::new(bytes);
        if req["kind"] == "command" {
            let mut dec = TTYCommandDecoder::new();
            while let Ok(Some(item)) = dec.decode(&mut cursor) {
                items.push(format!("{:?}", item));
            }
        } else {
            let mut dec = TTYEventDecoder::new();
            while let Ok(Some(item)) = dec.decode(&mut cursor) {
                items.push(format!("{:?}", item));
            }
        }
        println!("{}", json!({"items": items}));
    }
}

fn main() {
    let args: Vec<String> = std::env::args().collect();
    match args.get(1).map(|s| s.as_str()) {
        Some("c15") => cmd_c15(),
        Some("c15-run") => cmd_c15_run(),
        Some("automata") => cmd_automata(),
        Some("decode") => cmd_decode(),
        _ => {
            eprintln!("usage: tablegen c15|c15-run|automata");
            std::process::exit(2);
        }
    }
}
