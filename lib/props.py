"""Per-property orchestration: run the instances, classify, replay, write evidence."""
import json
import os
import random
import time

import kanirun as K

VIOL_DIR = os.path.join(K.VERIF, "violations")

# static description per property (what the check encodes; shown in evidence)
INFO = {}


def info(pid, **kw):
    INFO[pid] = kw


# extra (non-Kani) solver steps per property: fn(tier, seed, gen_info) -> list of result dicts
EXTRA = {}


def _select(pid, tier, harnesses, only):
    sel = [h for h in harnesses if h.prop == pid or pid in h.also]
    if only:
        sel = [h for h in sel if h.name in only or h.full in only]
    elif tier == "quick":
        sel = [h for h in sel if h.tier == "quick"]
    elif tier == "thorough":
        # instances that were tried and found out of reach are kept as "experimental":
        # they run only with --tier experimental and are reported in DESIGN.md
        sel = [h for h in sel if h.tier in ("quick", "thorough")]
    return sel


def write_evidence(pid, tier, seed, records, extra_records, wall, violations, inconclusive, known_lines,
                   gen_info):
    os.makedirs(os.path.join(K.VERIF, "evidence"), exist_ok=True)
    meta = INFO.get(pid, {})
    ok = [r for r in records if r["verdict"] in ("held", "expected-failure")]
    nontrivial = [r for r in records if r["verdict"] == "held" and r.get("covers_sat", 0) > 0 and r.get("covers_unsat", 0) == 0]
    extra_nontrivial = sum(int(r.get("nontrivial", 1)) for r in extra_records if r["verdict"] == "held")
    samples = []
    for r in records + extra_records:
        s = {k: r[k] for k in ("instance", "engine", "bounds", "unwind", "stubs", "verdict", "checks",
                               "solver_s", "wall_s", "reason", "witnesses") if k in r and r[k] not in (None, "", [])}
        samples.append(s)
    functions = sorted({f for r in records + extra_records for f in r.get("encodes", [])})
    stubs = sorted({s for r in records for s in r.get("stubs", [])})
    cov = {
        "evaluations": len(records) + sum(r.get("queries", 1) for r in extra_records),
        "distinct_nontrivial": len(nontrivial) + extra_nontrivial,
        "rule": ("one evaluation = one solver query discharged: a Kani/CBMC harness instance (all values of its "
                 "symbolic inputs inside the stated bounds, unwinding assertions on) or one SMT check-sat; an "
                 "instance is counted non-trivial only if it was decided (no timeout/out-of-memory) and every "
                 "reachability witness (kani::cover) in it was satisfied; instances differ in shape (lengths, "
                 "types, variants) and are listed in samples"),
        "samples": samples,
        "exhaustive": False,
        "instances_held": len([r for r in records + extra_records if r["verdict"] == "held"]),
        "instances_expected_failure": len([r for r in records if r["verdict"] == "expected-failure"]),
        "instances_inconclusive": [r["instance"] for r in records + extra_records if r["verdict"] == "inconclusive"],
        "instances_not_explored": [r["instance"] for r in records + extra_records if r["verdict"] == "not-explored"],
        "instances_violated": [r["instance"] for r in records + extra_records if r["verdict"] == "violated"],
        "cbmc_checks": sum(r.get("checks", 0) for r in records),
        "cbmc_checks_failed": sum(r.get("checks_failed", 0) for r in records if r["verdict"] == "violated"),
        "smt_queries": sum(r.get("queries", 0) for r in extra_records),
        "solver_seconds": round(sum(r.get("solver_s", 0.0) for r in records + extra_records), 3),
        "functions_encoded": functions,
        "stubs": stubs,
        "known_findings_reported": known_lines,
        "technique": meta.get("technique", "bounded model checking of the compiled crate (Kani 0.68 / CBMC 6.11, cadical)"),
        "outside_claim": meta.get("outside", ""),
        "repo_tree": gen_info.get("repo_rev", ""),
        "checker_cmd": "./check %s --tier %s" % (pid, tier),
    }
    ev = {
        "property_id": pid,
        "tier": tier if tier in ("quick", "thorough") else "thorough",
        "seed": seed,
        "level": "model_checking",
        "coverage": cov,
        "assumptions": meta.get("assumptions", []) + [
            "Kani models the dev profile (overflow checks on); unwinding assertions are on, so a loop bound that is too small is reported, not truncated",
            "every stub listed under coverage.stubs replaces the named function in the harnesses that use it",
            "the claim is bounded: nothing is stated outside the bounds listed per instance",
        ],
        "wall_s": round(wall, 2),
        "violations": violations,
    }
    path = os.path.join(K.VERIF, "evidence", "%s.json" % pid)
    with open(path, "w") as f:
        json.dump(ev, f, indent=1)
    return path


def _record(h, r):
    rec = {
        "instance": h.name,
        "engine": "kani",
        "bounds": h.bounds or "all values of the symbolic inputs",
        "unwind": h.unwind,
        "stubs": [s.strip() for s in h.stubs],
        "encodes": h.encodes,
        "checks": r.get("checks_total", 0),
        "checks_failed": r.get("checks_failed", 0),
        "covers_sat": r.get("covers_sat", 0),
        "covers_unsat": r.get("covers_unsat", 0),
        "solver_s": round(r.get("solver_s", 0.0), 3),
        "wall_s": round(r.get("wall_s", 0.0), 2),
        "reason": r.get("reason", ""),
        "witnesses": "%d/%d" % (r.get("covers_sat", 0), r.get("covers_sat", 0) + r.get("covers_unsat", 0)),
    }
    return rec


def save_violation(pid, h, cex, verdicts, failed):
    os.makedirs(VIOL_DIR, exist_ok=True)
    path = os.path.join(VIOL_DIR, "%s_%s.json" % (pid, h.name))
    with open(path, "w") as f:
        json.dump({"property": pid, "harness": h.name, "harness_path": h.full, "file": h.file,
                   "bounds": h.bounds, "failed_checks": failed, "counterexample": cex,
                   "native_replay": verdicts,
                   "how_to_replay": "./check %s --replay %s" % (pid, path)}, f, indent=1)
    return path


def replay_file(pid, path, harnesses):
    data = json.load(open(path))
    if data.get("engine") == "smt":
        import smtcheck
        return smtcheck.replay(data)
    if data.get("engine") == "smt-table":
        import smtcheck
        import subprocess
        smtcheck.build_tablegen()
        p = subprocess.run([smtcheck.TABLEGEN, "decode"], input=json.dumps({"kind": data["decoder"], "bytes": data["bytes"]}) + "\n",
                           capture_output=True, text=True, timeout=60)
        print("replay: U+%04X through the real %s decoder -> %s" % (data["scalar"], data["decoder"], p.stdout.strip() or "<crash>"))
        ch = chr(data["scalar"])
        if ("Char('%s')" % ch) not in p.stdout and repr(ch) not in p.stdout:
            print("VIOLATION property=%s replay=%s" % (pid, path))
            return 1
        return 0
    K.build_native()
    name = data["harness"]
    rc = 0
    for prof in ("dev", "release"):
        verdict, msg = K.replay_native(name, data["counterexample"]["values"], prof)
        print("replay[%s] %s: %s" % (prof, verdict, msg))
        if verdict == "reproduced":
            rc = 1
    if rc:
        print("VIOLATION property=%s replay=%s" % (pid, path))
    return rc


def run_property(pid, tier, seed, jobs, harnesses, known, gen_info, only=None, start=None, keep_going=False):
    start = start or time.time()
    if gen_info.get("error"):
        print("BROKEN: %s" % gen_info["error"])
        return 2
    sel = _select(pid, tier, harnesses, only)
    extra_fn = EXTRA.get(pid)
    if not sel and not extra_fn:
        print("no harnesses for %s" % pid)
        return 2
    rnd = random.Random(seed)
    rnd.shuffle(sel)
    # longest first within the shuffled order keeps the 16 cores busy
    sel.sort(key=lambda h: -h.timeout)
    print("[%s] tier=%s seed=%d instances=%d jobs=%d" % (pid, tier, seed, len(sel), jobs))

    results = K.kani_batch(sel, jobs, "%s_%s" % (pid, tier)) if sel else {}
    if "__error__" in results:
        print("BROKEN: " + results["__error__"])
        return 2
    kani_wall = results.pop("__wall__", 0.0)

    records, violations, inconclusive, known_lines, unexplored = [], [], [], [], []
    known_by_id = {k["id"]: k for k in known}
    native_built = False
    exit_code = 0
    for h in sel:
        r = results[h.name]
        rec = _record(h, r)
        if h.expect == "fail":
            if r["status"] == "failure":
                rec["verdict"] = "expected-failure"
                if h.known:
                    kf = known_by_id.get(h.known)
                    if kf and kf.get("status") == "known":
                        line = "KNOWN-FINDING: property=%s %s" % (pid, kf["what"])
                        print(line)
                        known_lines.append(line)
            elif r["status"] == "success":
                if h.known:
                    rec["verdict"] = "held"
                    print("note: known finding %s no longer reproduces (%s passed)" % (h.known, h.name))
                else:
                    rec["verdict"] = "inconclusive"
                    rec["reason"] = "vacuity twin passed: the harness does not reach its assertion"
                    inconclusive.append(h.name)
            else:
                rec["verdict"] = "inconclusive"
                inconclusive.append(h.name)
            records.append(rec)
            continue
        if r["status"] == "success":
            if r.get("covers_unsat", 0) > 0:
                rec["verdict"] = "inconclusive"
                rec["reason"] = "reachability witness unsatisfiable: vacuous instance"
                inconclusive.append(h.name)
            else:
                rec["verdict"] = "held"
        elif r["status"] == "failure":
            if violations and not keep_going:
                rec["verdict"] = "violated"
                rec["reason"] = "failed checks: " + "; ".join(
                    sorted({"%s (%s:%s)" % (f["description"], f["file"], f["line"]) for f in r["failed"]}))[:600]
                rec["replay"] = "not replayed (an earlier instance already reproduced)"
                violations.append((h, None))
                records.append(rec)
                continue
            # extract concrete values and replay against the real code, natively
            if not native_built:
                K.build_native()
                native_built = True
            cexs = K.kani_counterexamples(h)
            reproduced = None
            verdicts = []
            for cex in cexs:
                vs = {}
                for prof in ("dev", "release"):
                    verdict, msg = K.replay_native(h.name, cex["values"], prof)
                    vs[prof] = {"verdict": verdict, "message": msg}
                verdicts.append({"check": cex["description"], "replay": vs})
                if any(v["verdict"] == "reproduced" for v in vs.values()):
                    reproduced = (cex, vs)
                    break
            failed_desc = sorted({"%s (%s:%s)" % (f["description"], f["file"], f["line"]) for f in r["failed"]})
            if reproduced:
                cex, vs = reproduced
                path = save_violation(pid, h, cex, vs, r["failed"])
                rec["verdict"] = "violated"
                rec["reason"] = "failed checks: " + "; ".join(failed_desc)[:600]
                rec["replay"] = vs
                violations.append((h, path))
                print("  %s FAILED: %s" % (h.name, "; ".join(failed_desc)[:400]))
                print("  native replay: dev=%s release=%s" % (vs["dev"]["message"], vs["release"]["message"]))
                print("VIOLATION property=%s replay=%s" % (pid, path))
            else:
                rec["verdict"] = "inconclusive"
                rec["reason"] = ("counterexample did not replay natively (encoding or stub fault?): "
                                 + "; ".join(failed_desc)[:400] + " | " + json.dumps(verdicts)[:400])
                inconclusive.append(h.name)
                print("  %s: solver counterexample does NOT reproduce natively: %s" % (h.name, rec["reason"]))
        else:
            reason = r.get("reason", "")
            if tier != "quick" and ("timeout" in reason or "out_of_memory" in reason):
                # thorough tier: an instance the solver did not finish within its budget was not
                # explored; it is listed as such (never counted as held) and does not decide the verdict
                rec["verdict"] = "not-explored"
                unexplored.append(h.name)
            else:
                rec["verdict"] = "inconclusive"
                inconclusive.append(h.name)
        records.append(rec)

    extra_records = []
    if extra_fn and not only:
        for er in extra_fn(tier, seed, gen_info):
            extra_records.append(er)
            if er["verdict"] == "violated":
                violations.append((None, er.get("replay_path")))
                print("VIOLATION property=%s replay=%s" % (pid, er.get("replay_path")))
            elif er["verdict"] == "inconclusive":
                inconclusive.append(er["instance"])

    wall = time.time() - start
    path = write_evidence(pid, tier, seed, records, extra_records, wall, len(violations), inconclusive,
                          known_lines, gen_info)
    held = len([r for r in records + extra_records if r["verdict"] == "held"])
    print("[%s] held=%d expected-failures=%d violated=%d inconclusive=%d not-explored=%d wall=%.0fs (kani %.0fs) evidence=%s" % (
        pid, held, len([r for r in records if r["verdict"] == "expected-failure"]), len(violations),
        len(inconclusive), len(unexplored), wall, kani_wall, path))
    for r in records + extra_records:
        if r["verdict"] == "inconclusive":
            print("  INCONCLUSIVE %s: %s" % (r["instance"], r.get("reason", "")))
    if unexplored:
        print("  NOT EXPLORED (solver budget exhausted, not counted as held): %d instance(s): %s" % (
            len(unexplored), ", ".join(unexplored[:12]) + (" ..." if len(unexplored) > 12 else "")))
    if violations:
        return 1
    if inconclusive or held == 0:
        return 2
    return 0
