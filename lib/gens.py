"""Generators of harness sources + static descriptions of what each property's check encodes."""
from autogen import generator
from props import info

INT_TYPES = ["u8", "i8", "u16", "i16", "u32", "i32", "u64", "i64", "usize", "isize"]


# ----------------------------------------------------------------------------------------------
# C08
# ----------------------------------------------------------------------------------------------
@generator
def gen_c08(ctx):
    forms = ["index", "range", "from", "to", "incl", "toincl"]
    out = ["// generated: one harness per integer type x selector form (quick: n <= 2^32, thorough: n < 2^62)",
           "use crate::c08::*;", "use crate::nd::{any, assume};", "use surf_n_term::surface::ViewBounds;", ""]
    for t in INT_TYPES:
        for f in forms:
            enc = ("surface::<%s as ViewBounds>::view_bounds" % t if f == "index"
                   else "surface::<%s<%s> as ViewBounds>::view_bounds, surface::range_bounds" % (
                       {"range": "Range", "from": "RangeFrom", "to": "RangeTo", "incl": "RangeInclusive",
                        "toincl": "RangeToInclusive"}[f], t))
            for tier, nmax, nm, nb in (("quick", "N_QUICK", "c08_%s_%s" % (f, t), "2^32"),
                                       ("thorough", "N_WIDE", "c08_wide_%s_%s" % (f, t), "2^62 - 1")):
                out.append("/// @tier %s @timeout 120\n/// @bounds every %s bound value; n <= %s\n/// @encodes %s\n"
                           "#[cfg_attr(kani, kani::proof)]\npub fn %s() {\n    c08_harness!(%s, %s, %s)\n}\n"
                           % (tier, t, nb, enc, nm, t, f, nmax))
    return {"c08_gen": "\n".join(out)}


info("C08",
     technique="Kani/CBMC bounded model checking of ViewBounds::view_bounds (all ten integer types x six selector "
               "forms + RangeFull) against an i128 reference slice resolver",
     outside="axis lengths above 2^32 (quick) / 2^62 (thorough); for an inclusive end below -n the statement "
             "leaves open whether the end clamps to 'nothing' or to element 0, both are accepted",
     assumptions=["reference resolver (kani/src/c08.rs) is python slice.indices written in i128"])


# ----------------------------------------------------------------------------------------------
# C14
# ----------------------------------------------------------------------------------------------
@generator
def gen_c14(ctx):
    out = ["// generated: base64 instances by concrete length", "use crate::c14::*;", ""]

    def h(name, body, tier, timeout, bounds, enc, unwind):
        out.append("/// @tier %s @timeout %d\n/// @bounds %s\n/// @encodes %s\n#[cfg_attr(kani, kani::proof)]\n"
                   "#[cfg_attr(kani, kani::unwind(%d))]\npub fn %s() {\n    %s\n}\n"
                   % (tier, timeout, bounds, enc, unwind, name, body))

    for n in range(0, 8):
        for k1 in range(0, n + 1):
            for k2 in range(k1, n + 1):
                two_way = (k2 == n)
                tier = "quick" if (n <= 6 and two_way) or (n <= 4) else "thorough"
                h("c14_enc_n%d_%d_%d" % (n, k1, k2), "enc_case::<%d, %d, %d>()" % (n, k1, k2), tier, 120,
                  "every byte string of length %d written as [..%d], [%d..%d], [%d..]" % (n, k1, k1, k2, k2),
                  "encoder::Base64Encoder::write, encoder::Base64Encoder::finish", 14)
    quick_sched = [(4, 4), (1, 1), (2, 2), (3, 3), (1, 3), (3, 1), (2, 1), (1, 2)]
    all_sched = [(a, b) for a in (1, 2, 3, 4) for b in (1, 2, 3, 4)]
    DEC = "decoder::Base64Decoder::read, decoder::Base64Decoder::buffer_fill, decode_u8x4, decode_size"

    def dec(o, s_, m, bad, d, s0, s1, tier, timeout=300):
        h("c14_dec_o%d_s%d_m%d_b%d_d%d_r%d%d" % (o, s_, m, bad, d, s0, s1),
          "dec_case::<%d, %d, %d, %d, %d, %d, %d>()" % (o, s_, m, bad, d, s0, s1), tier, timeout,
          "decoder state: %d pending bytes in the internal buffer (offset %d, size %d); reader holds RFC 4648 text of %d "
          "symbolic bytes + %d extra characters; reader returns at most [%d,%d] bytes per read (cyclic); destination "
          "buffer %d bytes; all byte values" % (s_ - o, o, s_, m, bad, s0, s1, d), DEC, max(s_ - o + m + 2, 6))

    # fresh decoder, whole text through one large destination buffer, every read schedule
    for m in range(0, 7):
        for (s0, s1) in all_sched:
            # m >= 2: the padding test `== b'='` is symbolic, buffer sizes become symbolic: 20 GB+ (thorough only)
            dec(0, 0, m, 0, 16, s0, s1, "quick" if m <= 1 and (s0, s1) in quick_sched else "thorough", 300 if m <= 1 else 3000)
    # small destination buffers (padding structure concrete: m <= 1) from several buffer states
    for (o, s_) in ((0, 0), (0, 2), (1, 3), (0, 1)):
        for m in (0, 1):
            for d in (1, 2, 3):
                for (s0, s1) in ((4, 4), (1, 1), (1, 3), (2, 1)):
                    quick = (s0, s1) in ((4, 4), (1, 1)) and (o, s_) != (0, 1)
                    dec(o, s_, m, 0, d, s0, s1, "quick" if quick else "thorough")
    # small destination buffers with symbolic padding structure (expensive)
    for m in (2, 3, 4):
        for d in (1, 3):
            dec(0, 0, m, 0, d, 4, 4, "thorough", 1800)
    # bad length: never a silent truncation
    for (o, s_) in ((0, 0), (0, 2), (1, 3)):
        for m in (0, 1, 3):
            for bad in (1, 2, 3):
                for d in (1, 16):
                    for (s0, s1) in ((4, 4), (1, 1)):
                        if m == 3 and d == 1:
                            continue
                        quick = m <= 1 and (s0, s1) == (4, 4) and (o, s_) != (1, 3)
                        dec(o, s_, m, bad, d, s0, s1, "quick" if quick else "thorough")
    for t in (4, 8):
        h("c14_total_t%d" % t, "dec_total_case::<%d>()" % t, "thorough", 3000,
          "every text of %d arbitrary bytes, full reads" % t,
          "decoder::Base64Decoder::read, decoder::Base64Decoder::buffer_fill, decode_u8x4", 8)
    return {"c14_gen": "\n".join(out)}


info("C14",
     technique="Kani/CBMC bounded model checking of Base64Encoder/Base64Decoder against an RFC 4648 reference, "
               "concrete lengths, symbolic bytes, symbolic write partition / read schedule / buffer size",
     outside="inputs longer than 9 bytes (encoder) / 6 bytes (decoder round trip) / 8 text bytes (totality); the "
             "48/64-byte internal buffer boundary; readers returning ErrorKind::Interrupted",
     assumptions=["RFC 4648 reference encoder in kani/src/c14.rs"])


# ----------------------------------------------------------------------------------------------
# C16
# ----------------------------------------------------------------------------------------------
@generator
def gen_c16(ctx):
    out = ["// generated: IOQueue one-step instances by concrete representation shape", "use crate::c16::*;", ""]
    for k in range(0, 4):
        lens_list = [[]]
        for _ in range(k):
            lens_list = [l + [x] for l in lens_list for x in (0, 1, 2)]
        for lens in lens_list:
            l = lens + [0] * (3 - len(lens))
            offs = [0] if (k == 0 or l[0] < 2) else [0, 1]
            for off in offs:
                rem = (l[0] - off) if k > 0 else 0
                shape = "".join(str(x) for x in l[:k]) or "e"
                quick_shape = (k, shape, off) in ((0, "e", 0), (1, "1", 0), (1, "2", 1), (2, "21", 1), (2, "20", 0),
                                                  (2, "02", 0), (1, "0", 0))
                ops = [(0, 1, "write1", "write of 1 symbolic byte"), (0, 2, "write2", "write of 2 symbolic bytes"),
                       (1, 1, "flush1", "flush"), (1, 2, "flush2", "flush twice"),
                       (4, 0, "cwerr", "consume_with whose consumer fails (EAGAIN)"), (6, 0, "drop", "clear_but_last")]
                for a in range(0, rem + 1):
                    ops.append((2, a, "consume%d" % a, "consume(%d)" % a))
                    ops.append((3, a, "cw%d" % a, "consume_with accepting %d byte(s) (short write)" % a))
                for a in range(0, 4):
                    ops.append((5, a, "read%d" % a, "read into a %d byte buffer" % a))
                for (op, arg, opname, opdesc) in ops:
                    name = "c16_%s_k%d_%s_o%d" % (opname, k, shape, off)
                    tier = "quick" if quick_shape else "thorough"
                    out.append("/// @tier %s @timeout 300\n/// @bounds pre-state = %d chunk(s) of lengths %s, front offset %d, "
                               "all byte values; operation: %s\n"
                               "/// @encodes common::IOQueue::write, common::IOQueue::flush, common::IOQueue::consume, "
                               "common::IOQueue::consume_with, common::IOQueue::read, common::IOQueue::clear_but_last, "
                               "common::IOQueue::as_slice, common::IOQueue::len\n"
                               "#[cfg_attr(kani, kani::proof)]\n#[cfg_attr(kani, kani::unwind(%d))]\npub fn %s() {\n"
                               "    step_case::<%d, %d, %d, %d, %d, %d, %d>()\n}\n"
                               % (tier, k, l[:k], off, opdesc, 21, name, k, l[0], l[1], l[2], off, op, arg))
    return {"c16_gen": "\n".join(out)}


info("C16",
     technique="Kani/CBMC bounded model checking: one step of every IOQueue operation from every small valid "
               "representation state, refinement to the readable byte sequence",
     outside="UnixTerminal::poll / tty short writes and EAGAIN against a real tty (FFI, select); queues with more than "
             "3 chunks or chunks longer than 2 bytes (the code treats chunks uniformly; the step covers every chunk "
             "count that the operations distinguish: 0, 1, 2, more)",
     assumptions=["representation invariant: length == sum(chunks) - offset and (offset == 0 or offset < |front|); "
                  "the step harnesses show every operation preserves it, IOQueue::new() establishes it"])


info("C05",
     technique="Kani/CBMC bounded model checking of TTYEncoder::encode per command variant: emitted bytes are parsed "
               "back by a harness-side ECMA-48/xterm reader and compared with the command for all parameter values",
     outside="positions/counts above 99999; EightBit and Gray colour depths (f32 colour reduction, see C20); titles, "
             "capability names and raw payloads longer than 3 bytes; Image/ImageErase (handled by the image handlers)",
     assumptions=["harness-side reader implements ECMA-48 CSI/OSC/DCS syntax and the SGR semantics of ECMA-48 8.3.117 "
                  "+ xterm/kitty extensions (38/48/58 with ; or : forms, 4:n underline styles)",
                  "output sink is an infallible fixed array (write errors of the underlying tty are C16's subject)"])


# ----------------------------------------------------------------------------------------------
# C06
# ----------------------------------------------------------------------------------------------
@generator
def gen_c06(ctx):
    out = ["// generated: sgr_face against the reference SGR machine by parameter string length", "use crate::c06::*;", ""]
    for n in range(0, 5):
        tier = "quick" if n <= 2 else "thorough"
        out.append("/// @tier %s @timeout %d\n/// @bounds every parameter string of length %d over [0-9:;] whose parameters the "
                   "reference machine defines (no palette selection)\n"
                   "/// @encodes decoder::sgr_face, decoder::sgr_color, decoder::number_decode, decoder::GraphicRenditionMatcher::decode, face::FaceModify::apply\n"
                   "#[cfg_attr(kani, kani::proof)]\n#[cfg_attr(kani, kani::unwind(12))]\npub fn c06_sgr_face_len%d() {\n"
                   "    sgr_face_case::<%d>()\n}\n" % (tier, 600 if n <= 2 else 3000, n, n, n))
    return {"c06_gen": "\n".join(out)}


info("C06",
     technique="Kani/CBMC bounded model checking: FaceModify::apply against reference SGR semantics for every face and "
               "record; the library's SGR reader against a reference SGR machine on every parameter string up to a "
               "length; encoder output read back by the payload decoders",
     outside="SGR parameter strings longer than 2 (quick) / 4 (thorough) bytes; TTYCellWriter end to end (LazyLock "
             "command automaton); chunking of the written bytes (C03); palette (38;5;n) and 16-colour selections",
     assumptions=["reference SGR machine of kani/src/c05.rs (ECMA-48 8.3.117 + xterm/kitty extensions)"])


# ----------------------------------------------------------------------------------------------
# C07
# ----------------------------------------------------------------------------------------------
SEL_NAMES = {0: "a..b", 1: "a..=b", 2: "a..", 3: "..b", 4: "index a", 5: ".."}


@generator
def gen_c07(ctx):
    out = ["// generated: surface view chains by concrete base size / transposes / selector forms / operation", ""]
    ENC_R = ("surface::Shape::view, surface::Surface::view, surface::Surface::transpose, surface::SurfaceIter::nth, "
             "surface::Surface::get, surface::Shape::offset, surface::Shape::nth")
    ENC_W = ("surface::Shape::view, surface::SurfaceMut::view_mut, surface::Surface::view_owned, surface::Surface::transpose, "
             "surface::SurfaceMutIter::nth, surface::SurfaceMut::fill, surface::SurfaceMut::clear, surface::SurfaceMut::fill_with, "
             "surface::SurfaceMut::insert, surface::SurfaceMut::get_mut")
    ops = {0: "iter_mut", 1: "fill", 2: "clear", 3: "fill_with", 4: "insert", 5: "get_mut"}

    def b(x):
        return "true" if x else "false"

    def read(h, w, t0, t1, ks, tier):
        name = "c07_read_%dx%d_t%d%d_s%d%d%d%d" % (h, w, t0, t1, *ks)
        out.append("/// @tier %s @timeout 900\n/// @bounds base %dx%d; %sview(rows %s, cols %s)%s then view(rows %s, cols %s); every bound in -(n+3)..=(n+3)\n"
                   "/// @encodes %s\n#[cfg_attr(kani, kani::proof)]\n#[cfg_attr(kani, kani::unwind(7))]\npub fn %s() {\n"
                   "    crate::c07_read_case!(%d, %d, %s, %s, %d, %d, %d, %d)\n}\n"
                   % (tier, h, w, "transpose, " if t0 else "", SEL_NAMES[ks[0]], SEL_NAMES[ks[1]], ", transpose" if t1 else "",
                      SEL_NAMES[ks[2]], SEL_NAMES[ks[3]], ENC_R, name, h, w, b(t0), b(t1), *ks))

    def write(h, w, t0, t1, ks, op, tier):
        name = "c07_%s_%dx%d_t%d%d_s%d%d" % (ops[op], h, w, t0, t1, *ks)
        out.append("/// @tier %s @timeout 900\n/// @bounds base %dx%d; %sview_mut(rows %s, cols %s)%s then %s; every bound in -(n+3)..=(n+3)\n"
                   "/// @encodes %s\n#[cfg_attr(kani, kani::proof)]\n#[cfg_attr(kani, kani::unwind(18))]\npub fn %s() {\n"
                   "    crate::c07_write_case!(%d, %d, %s, %s, %d, %d, %d)\n}\n"
                   % (tier, h, w, "transpose, " if t0 else "", SEL_NAMES[ks[0]], SEL_NAMES[ks[1]], ", transpose" if t1 else "",
                      ops[op], ENC_W, name, h, w, b(t0), b(t1), ks[0], ks[1], op))

    sel_read = [(0, 0, 0, 0), (1, 4, 5, 2), (2, 3, 4, 1)]
    for (h, w) in [(2, 3), (3, 4), (0, 2), (1, 1), (3, 0)]:
        for t0 in (0, 1):
            for t1 in (0, 1):
                for ks in sel_read:
                    quick = (h, w) == (2, 3) and (ks == (0, 0, 0, 0) or (t0, t1) == (0, 0))
                    quick = quick or ((h, w) in ((0, 2), (1, 1)) and (t0, t1) == (1, 0) and ks == (0, 0, 0, 0))
                    read(h, w, t0, t1, ks, "quick" if quick else "thorough")
    for (h, w) in [(2, 3), (3, 4), (1, 1), (0, 2)]:
        for t0 in (0, 1):
            for t1 in (0, 1):
                for ks in [(0, 0), (1, 3), (4, 2)]:
                    for op in range(6):
                        quick = (h, w) == (2, 3) and ks == (0, 0) and (t0, t1) in ((0, 0), (1, 1), (0, 1))
                        quick = quick and not ((t0, t1) == (0, 1) and op not in (0, 4))
                        write(h, w, t0, t1, ks, op, "quick" if quick else "thorough")
    return {"c07_gen": "\n".join(out)}


info("C07",
     technique="Kani/CBMC bounded model checking of the real view/transpose/iterate/mutate code against an index-matrix "
               "model; concrete base sizes, symbolic signed bounds",
     outside="base surfaces larger than 3x4; chains longer than transpose-view-transpose-view; hand-built strides "
             "(Shape literals); map/to_owned_surf (thorough)",
     assumptions=["model = numpy slicing on a plain matrix, using the C08 reference resolver"])


# ----------------------------------------------------------------------------------------------
# C03
# ----------------------------------------------------------------------------------------------
@generator
def gen_c03(ctx):
    out = ["// generated: tokenizer refinement instances by DFA size and state shape", "use crate::c03::*;", ""]
    ENC = "decoder::MatcherDecoder::decode_byte, decoder::MatcherDecoder::take_candidate, automata::DFA::transition, automata::DFA::info"
    CK = {0: "no candidate", 1: "recognised candidate", 2: "raw candidate"}

    def step(s, l, b, r, ck, k, tier, timeout=900):
        out.append("/// @tier %s @timeout %d\n/// @bounds every DFA with %d states over %d symbols (all transitions, all accepting sets); state: "
                   "any DFA state, buffer of %d bytes, %d rescheduled bytes, %s%s; any next byte\n/// @encodes %s\n"
                   "#[cfg_attr(kani, kani::proof)]\n#[cfg_attr(kani, kani::unwind(10))]\npub fn c03_step_s%dl%d_b%dr%dc%dk%d() {\n"
                   "    step_case::<%d, %d, %d, %d, %d, %d>()\n}\n"
                   % (tier, timeout, s, l, b, r, CK[ck], (" at size %d" % k) if ck else "", ENC, s, l, b, r, ck, k, s, l, b, r, ck, k))

    def call(s, l, b, r, ck, k, n, tier, timeout=1800):
        out.append("/// @tier %s @timeout %d\n/// @bounds every DFA with %d states over %d symbols; state: buffer %d, rescheduled %d, %s%s; "
                   "one decode call over every %d byte input\n/// @encodes decoder::MatcherDecoder::decode, %s\n"
                   "#[cfg_attr(kani, kani::proof)]\n#[cfg_attr(kani, kani::unwind(10))]\npub fn c03_call_s%dl%d_b%dr%dc%dk%d_n%d() {\n"
                   "    call_case::<%d, %d, %d, %d, %d, %d, %d>()\n}\n"
                   % (tier, timeout, s, l, b, r, CK[ck], (" at size %d" % k) if ck else "", n, ENC, s, l, b, r, ck, k, n, s, l, b, r, ck, k, n))

    quick_shapes = [(0, 0, 0, 0), (1, 0, 0, 0), (1, 0, 1, 1), (2, 1, 1, 1), (2, 0, 1, 2), (3, 1, 1, 2), (2, 2, 0, 0), (2, 1, 2, 1)]
    for (b, r, ck, k) in quick_shapes:
        step(2, 2, b, r, ck, k, "quick")
    shapes = []
    for b in range(0, 4):
        for r in range(0, 3):
            shapes.append((b, r, 0, 0))
            for k in range(1, b + 1):
                shapes.append((b, r, 1, k))
                shapes.append((b, r, 2, k))
    for (b, r, ck, k) in shapes:
        if (b, r, ck, k) not in quick_shapes:
            step(2, 2, b, r, ck, k, "thorough")
        if ck != 2 and r <= 1:
            step(3, 2, b, r, ck, k, "thorough", 1800)
            step(2, 3, b, r, ck, k, "thorough", 1800)
    for (b, r, ck, k, n) in [(0, 0, 0, 0, 0), (0, 0, 0, 0, 1), (1, 0, 1, 1, 0), (1, 1, 1, 1, 1), (0, 1, 0, 0, 2), (2, 2, 1, 1, 1)]:
        call(2, 2, b, r, ck, k, n, "quick" if n <= 1 and r <= 1 else "thorough")
    for (b, r, ck, k, n) in [(1, 0, 1, 1, 2), (2, 1, 1, 2, 2), (0, 2, 0, 0, 3), (3, 2, 1, 2, 2)]:
        call(2, 2, b, r, ck, k, n, "thorough")
    for (s, l, n, tier) in [(2, 2, 3, "quick"), (3, 2, 4, "thorough"), (2, 2, 5, "thorough"), (3, 3, 4, "thorough")]:
        out.append("/// @tier %s @timeout 1800\n/// @bounds reference tokenizer only (no crate code): every DFA with %d states over %d symbols, every "
                   "input of %d symbols, every split into three reads\n/// @encodes (model) c03::Model::step, c03::Model::decode\n"
                   "#[cfg_attr(kani, kani::proof)]\n#[cfg_attr(kani, kani::unwind(%d))]\npub fn c03_model_chunks_s%dl%d_n%d() {\n"
                   "    chunk_case::<%d, %d, %d>()\n}\n" % (tier, s, l, n, 2 * n + 4 if 2 * n + 4 > 10 else 10, s, l, n, s, l, n))
        out.append("/// @tier %s @timeout 1800\n/// @bounds reference tokenizer only (no crate code): every DFA with %d states over %d symbols, every "
                   "input of %d symbols; items == leftmost-longest tokenisation by definition\n/// @encodes (model) c03::Model::step\n"
                   "#[cfg_attr(kani, kani::proof)]\n#[cfg_attr(kani, kani::unwind(%d))]\npub fn c03_model_munch_s%dl%d_n%d() {\n"
                   "    munch_case::<%d, %d, %d>()\n}\n" % (tier, s, l, n, 2 * n + 4 if 2 * n + 4 > 10 else 10, s, l, n, s, l, n))
    return {"c03_gen": "\n".join(out)}


info("C03",
     technique="Kani/CBMC bounded model checking: refinement of the real tokenizer (decode_byte step and decode call) to a "
               "reference tokenizer over a fully symbolic small DFA; chunk independence and leftmost-longest decided on "
               "the reference tokenizer",
     outside="DFAs larger than 3 states / 3 symbols (production automata have 650/16/11 states: the driver is generic in "
             "the table, its code does not depend on the table size); buffers longer than 3 bytes (32 byte inline "
             "SmallVec never spills in the instances); model-level inputs longer than 5 symbols; unix.rs read loop",
     assumptions=["raw-chunk convention: with no candidate the bytes before the failing byte form one raw item",
                  "Tokenizer hook builds DFAStateInfo.is_terminal as NFA::compile does (no outgoing edge)"])
