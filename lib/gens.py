"""Generators of harness sources + static descriptions of what each property's check encodes."""
from autogen import generator
from props import info

INT_TYPES = ["u8", "i8", "u16", "i16", "u32", "i32", "u64", "i64", "usize", "isize"]


# ----------------------------------------------------------------------------------------------
# C08
# ----------------------------------------------------------------------------------------------
@generator
def gen_c08(ctx):
    forms = ["index", "range", "from", "to", "incl", "toincl"]
    out = ["// generated: one harness per integer type x selector form (quick: n <= 2^32, thorough: n < 2^62)",
           "use crate::c08::*;", "use crate::nd::{any, assume};", "use surf_n_term::surface::ViewBounds;", ""]
    for t in INT_TYPES:
        for f in forms:
            enc = ("surface::<%s as ViewBounds>::view_bounds" % t if f == "index"
                   else "surface::<%s<%s> as ViewBounds>::view_bounds, surface::range_bounds" % (
                       {"range": "Range", "from": "RangeFrom", "to": "RangeTo", "incl": "RangeInclusive",
                        "toincl": "RangeToInclusive"}[f], t))
            for tier, nmax, nm, nb in (("quick", "N_QUICK", "c08_%s_%s" % (f, t), "2^32"),
                                       ("thorough", "N_WIDE", "c08_wide_%s_%s" % (f, t), "2^62 - 1")):
                out.append("/// @tier %s @timeout 120\n/// @bounds every %s bound value; n <= %s\n/// @encodes %s\n"
                           "#[cfg_attr(kani, kani::proof)]\npub fn %s() {\n    c08_harness!(%s, %s, %s)\n}\n"
                           % (tier, t, nb, enc, nm, t, f, nmax))
    return {"c08_gen": "\n".join(out)}


info("C08",
     technique="Kani/CBMC bounded model checking of ViewBounds::view_bounds (all ten integer types x six selector "
               "forms + RangeFull) against an i128 reference slice resolver",
     outside="axis lengths above 2^32 (quick) / 2^62 (thorough); for an inclusive end below -n the statement "
             "leaves open whether the end clamps to 'nothing' or to element 0, both are accepted",
     assumptions=["reference resolver (kani/src/c08.rs) is python slice.indices written in i128"])
