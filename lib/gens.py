"""Generators of harness sources + static descriptions of what each property's check encodes."""
from autogen import generator
from props import info

TRACING_STUBS = ("#[cfg_attr(kani, kani::stub(tracing_core::callsite::DefaultCallsite::interest, crate::stubs::interest_never))]\n"
                 "#[cfg_attr(kani, kani::stub(tracing::__macro_support::__is_enabled, crate::stubs::is_enabled_false))]\n"
                 "#[cfg_attr(kani, kani::stub(tracing_core::event::Event::dispatch, crate::stubs::dispatch_nothing))]\n"
                 "#[cfg_attr(kani, kani::stub(tracing::span::Span::new, crate::stubs::span_none))]\n")

INT_TYPES = ["u8", "i8", "u16", "i16", "u32", "i32", "u64", "i64", "usize", "isize"]


# ----------------------------------------------------------------------------------------------
# C08
# ----------------------------------------------------------------------------------------------
@generator
def gen_c08(ctx):
    forms = ["index", "range", "from", "to", "incl", "toincl"]
    out = ["// generated: one harness per integer type x selector form (quick: n <= 2^32, thorough: n < 2^62)",
           "use crate::c08::*;", "use crate::nd::{any, assume};", "use surf_n_term::surface::ViewBounds;", ""]
    for t in INT_TYPES:
        for f in forms:
            enc = ("surface::<%s as ViewBounds>::view_bounds" % t if f == "index"
                   else "surface::<%s<%s> as ViewBounds>::view_bounds, surface::range_bounds" % (
                       {"range": "Range", "from": "RangeFrom", "to": "RangeTo", "incl": "RangeInclusive",
                        "toincl": "RangeToInclusive"}[f], t))
            for tier, nmax, nm, nb in (("quick", "N_QUICK", "c08_%s_%s" % (f, t), "2^32"),
                                       ("thorough", "N_WIDE", "c08_wide_%s_%s" % (f, t), "2^62 - 1")):
                out.append("/// @tier %s @timeout 120\n/// @bounds every %s bound value; n <= %s\n/// @encodes %s\n"
                           "#[cfg_attr(kani, kani::proof)]\npub fn %s() {\n    c08_harness!(%s, %s, %s)\n}\n"
                           % (tier, t, nb, enc, nm, t, f, nmax))
    return {"c08_gen": "\n".join(out)}


info("C08",
     technique="Kani/CBMC bounded model checking of ViewBounds::view_bounds (all ten integer types x six selector "
               "forms + RangeFull) against an i128 reference slice resolver",
     outside="axis lengths above 2^32 (quick) / 2^62 (thorough); for an inclusive end below -n the statement "
             "leaves open whether the end clamps to 'nothing' or to element 0, both are accepted",
     assumptions=["reference resolver (kani/src/c08.rs) is python slice.indices written in i128"])


# ----------------------------------------------------------------------------------------------
# C14
# ----------------------------------------------------------------------------------------------
@generator
def gen_c14(ctx):
    out = ["// generated: base64 instances by concrete length", "use crate::c14::*;", ""]

    def h(name, body, tier, timeout, bounds, enc, unwind):
        out.append("/// @tier %s @timeout %d\n/// @bounds %s\n/// @encodes %s\n#[cfg_attr(kani, kani::proof)]\n"
                   "#[cfg_attr(kani, kani::unwind(%d))]\npub fn %s() {\n    %s\n}\n"
                   % (tier, timeout, bounds, enc, unwind, name, body))

    for n in range(0, 8):
        for k1 in range(0, n + 1):
            for k2 in range(k1, n + 1):
                two_way = (k2 == n)
                tier = "quick" if (n <= 6 and two_way) or (n <= 4) else "thorough"
                h("c14_enc_n%d_%d_%d" % (n, k1, k2), "enc_case::<%d, %d, %d>()" % (n, k1, k2), tier, 120,
                  "every byte string of length %d written as [..%d], [%d..%d], [%d..]" % (n, k1, k1, k2, k2),
                  "encoder::Base64Encoder::write, encoder::Base64Encoder::finish", 14)
    quick_sched = [(4, 4), (1, 1), (2, 2), (3, 3), (1, 3), (3, 1), (2, 1), (1, 2)]
    all_sched = [(a, b) for a in (1, 2, 3, 4) for b in (1, 2, 3, 4)]
    DEC = "decoder::Base64Decoder::read, decoder::Base64Decoder::buffer_fill, decode_u8x4, decode_size"

    def dec(o, s_, m, bad, d, s0, s1, tier, timeout=300):
        h("c14_dec_o%d_s%d_m%d_b%d_d%d_r%d%d" % (o, s_, m, bad, d, s0, s1),
          "dec_case::<%d, %d, %d, %d, %d, %d, %d>()" % (o, s_, m, bad, d, s0, s1), tier, timeout,
          "decoder state: %d pending bytes in the internal buffer (offset %d, size %d); reader holds RFC 4648 text of %d "
          "symbolic bytes + %d extra characters; reader returns at most [%d,%d] bytes per read (cyclic); destination "
          "buffer %d bytes; all byte values" % (s_ - o, o, s_, m, bad, s0, s1, d), DEC, max(s_ - o + m + 2, 6))

    # fresh decoder, whole text through one large destination buffer, every read schedule
    for m in range(0, 7):
        for (s0, s1) in all_sched:
            # m >= 2: the padding test `== b'='` is symbolic, buffer sizes become symbolic: 20 GB+ (thorough only)
            dec(0, 0, m, 0, 16, s0, s1, ("quick" if (s0, s1) in quick_sched else "thorough") if m <= 1 else "experimental", 300 if m <= 1 else 3000)
    # small destination buffers (padding structure concrete: m <= 1) from several buffer states
    for (o, s_) in ((0, 0), (0, 2), (1, 3), (0, 1)):
        for m in (0, 1):
            for d in (1, 2, 3):
                for (s0, s1) in ((4, 4), (1, 1), (1, 3), (2, 1)):
                    quick = (s0, s1) in ((4, 4), (1, 1)) and (o, s_) != (0, 1)
                    dec(o, s_, m, 0, d, s0, s1, "quick" if quick else "thorough")
    # small destination buffers with symbolic padding structure (expensive)
    for m in (2, 3, 4):
        for d in (1, 3):
            dec(0, 0, m, 0, d, 4, 4, "experimental", 1800)
    # bad length: never a silent truncation
    for (o, s_) in ((0, 0), (0, 2), (1, 3)):
        for m in (0, 1, 3):
            for bad in (1, 2, 3):
                for d in (1, 16):
                    for (s0, s1) in ((4, 4), (1, 1)):
                        if m == 3 and d == 1:
                            continue
                        quick = m <= 1 and (s0, s1) == (4, 4) and (o, s_) != (1, 3)
                        dec(o, s_, m, bad, d, s0, s1, "quick" if quick else ("thorough" if m <= 1 else "experimental"))
    for t in (4, 8):
        h("c14_total_t%d" % t, "dec_total_case::<%d>()" % t, "experimental", 3000,
          "every text of %d arbitrary bytes, full reads" % t,
          "decoder::Base64Decoder::read, decoder::Base64Decoder::buffer_fill, decode_u8x4", 8)
    return {"c14_gen": "\n".join(out)}


info("C14",
     technique="Kani/CBMC bounded model checking of Base64Encoder/Base64Decoder against an RFC 4648 reference, "
               "concrete lengths, symbolic bytes, symbolic write partition / read schedule / buffer size",
     outside="inputs longer than 9 bytes (encoder) / 6 bytes (decoder round trip) / 8 text bytes (totality); the "
             "48/64-byte internal buffer boundary; readers returning ErrorKind::Interrupted",
     assumptions=["RFC 4648 reference encoder in kani/src/c14.rs"])


# ----------------------------------------------------------------------------------------------
# C16
# ----------------------------------------------------------------------------------------------
@generator
def gen_c16(ctx):
    out = ["// generated: IOQueue one-step instances by concrete representation shape", "use crate::c16::*;", ""]
    for k in range(0, 4):
        lens_list = [[]]
        for _ in range(k):
            lens_list = [l + [x] for l in lens_list for x in (0, 1, 2)]
        for lens in lens_list:
            l = lens + [0] * (3 - len(lens))
            offs = [0] if (k == 0 or l[0] < 2) else [0, 1]
            for off in offs:
                rem = (l[0] - off) if k > 0 else 0
                shape = "".join(str(x) for x in l[:k]) or "e"
                quick_shape = (k, shape, off) in ((0, "e", 0), (1, "1", 0), (1, "2", 1), (2, "21", 1), (2, "20", 0),
                                                  (2, "02", 0), (1, "0", 0))
                ops = [(0, 1, "write1", "write of 1 symbolic byte"), (0, 2, "write2", "write of 2 symbolic bytes"),
                       (1, 1, "flush1", "flush"), (1, 2, "flush2", "flush twice"),
                       (4, 0, "cwerr", "consume_with whose consumer fails (EAGAIN)"), (6, 0, "drop", "clear_but_last")]
                for a in range(0, rem + 1):
                    ops.append((2, a, "consume%d" % a, "consume(%d)" % a))
                    ops.append((3, a, "cw%d" % a, "consume_with accepting %d byte(s) (short write)" % a))
                for a in range(0, 4):
                    ops.append((5, a, "read%d" % a, "read into a %d byte buffer" % a))
                for (op, arg, opname, opdesc) in ops:
                    name = "c16_%s_k%d_%s_o%d" % (opname, k, shape, off)
                    tier = "quick" if quick_shape else "thorough"
                    out.append("/// @tier %s @timeout 300\n/// @bounds pre-state = %d chunk(s) of lengths %s, front offset %d, "
                               "all byte values; operation: %s\n"
                               "/// @encodes common::IOQueue::write, common::IOQueue::flush, common::IOQueue::consume, "
                               "common::IOQueue::consume_with, common::IOQueue::read, common::IOQueue::clear_but_last, "
                               "common::IOQueue::as_slice, common::IOQueue::len\n"
                               "#[cfg_attr(kani, kani::proof)]\n#[cfg_attr(kani, kani::unwind(%d))]\npub fn %s() {\n"
                               "    step_case::<%d, %d, %d, %d, %d, %d, %d>()\n}\n"
                               % (tier, k, l[:k], off, opdesc, 21, name, k, l[0], l[1], l[2], off, op, arg))
    return {"c16_gen": "\n".join(out)}


info("C16",
     technique="Kani/CBMC bounded model checking: one step of every IOQueue operation from every small valid "
               "representation state, refinement to the readable byte sequence",
     outside="UnixTerminal::poll / tty short writes and EAGAIN against a real tty (FFI, select); queues with more than "
             "3 chunks or chunks longer than 2 bytes (the code treats chunks uniformly; the step covers every chunk "
             "count that the operations distinguish: 0, 1, 2, more)",
     assumptions=["representation invariant: length == sum(chunks) - offset and (offset == 0 or offset < |front|); "
                  "the step harnesses show every operation preserves it, IOQueue::new() establishes it"])


@generator
def gen_c05(ctx):
    out = ["// generated: OSC colour commands by role", "use crate::c05::*;", ""]
    names = {0: "fg", 1: "bg", 2: "palette"}
    for which in (0, 1, 2):
        for query in (False, True):
            out.append("/// @timeout 900\n/// @bounds %s colour %s: %s\n/// @encodes encoder::TTYEncoder::encode[Color]\n"
                       "#[cfg_attr(kani, kani::proof)]\n#[cfg_attr(kani, kani::unwind(10))]\npub fn c05_color_%s_%s() {\n"
                       "    color_case::<%d, %s>()\n}\n"
                       % (names[which], "query" if query else "set",
                          ("every opaque colour" if not query else "query form") + ("; palette index <= 999" if which == 2 else ""),
                          names[which], "query" if query else "set", which, "true" if query else "false"))
    return {"c05_gen": "\n".join(out)}


info("C05",
     technique="Kani/CBMC bounded model checking of TTYEncoder::encode per command variant: emitted bytes are parsed "
               "back by a harness-side ECMA-48/xterm reader and compared with the command for all parameter values",
     outside="Face and FaceModify (SGR built through the encoder's own Chunks writer: experimental tier, > 40 min); "
             "positions/counts above 99999; EightBit and Gray colour depths (f32 colour reduction, see C20); titles, "
             "capability names and raw payloads longer than 3 bytes; Image/ImageErase (handled by the image handlers)",
     assumptions=["harness-side reader implements ECMA-48 CSI/OSC/DCS syntax and the SGR semantics of ECMA-48 8.3.117 "
                  "+ xterm/kitty extensions (38/48/58 with ; or : forms, 4:n underline styles)",
                  "output sink is an infallible fixed array (write errors of the underlying tty are C16's subject)"])


# ----------------------------------------------------------------------------------------------
# C06
# ----------------------------------------------------------------------------------------------
@generator
def gen_c06(ctx):
    out = ["// generated: sgr_face against the reference SGR machine by parameter string length", "use crate::c06::*;", ""]
    for n in range(0, 5):
        tier = "experimental"
        out.append("/// @tier %s @timeout %d\n/// @bounds every parameter string of length %d over [0-9:;] whose parameters the "
                   "reference machine defines (no palette selection)\n"
                   "/// @encodes decoder::sgr_face, decoder::sgr_color, decoder::number_decode, decoder::GraphicRenditionMatcher::decode, face::FaceModify::apply\n"
                   "#[cfg_attr(kani, kani::proof)]\n#[cfg_attr(kani, kani::unwind(%d))]\npub fn c06_sgr_face_len%d() {\n"
                   "    sgr_face_case::<%d, %d>()\n}\n" % (tier, 900 if n <= 2 else 3000, n, max(n + 3, 6), n, n, n + 1))
    for (dr, dg, db, tier) in ((1, 1, 1, "quick"), (3, 3, 3, "quick"), (2, 3, 1, "thorough"), (3, 1, 2, "thorough")):
        out.append("/// @tier %s @timeout 900\n/// @bounds R, G, B with %d/%d/%d decimal digits (every value, also above 255), followed by the groups `48`, `5`\n"
                   "/// @encodes decoder::sgr_color, decoder::number_decode\n"
                   "#[cfg_attr(kani, kani::proof)]\n#[cfg_attr(kani, kani::unwind(8))]\npub fn c06_sgr_color_%d%d%d() {\n"
                   "    sgr_color_case::<%d, %d, %d>()\n}\n" % (tier, dr, dg, db, dr, dg, db, dr, dg, db))
    return {"c06_gen": "\n".join(out)}


info("C06",
     technique="Kani/CBMC bounded model checking: FaceModify::apply against reference SGR semantics for every face and "
               "record; sgr_color on the encoder's true-colour parameter groups followed by further parameters; encoder "
               "output of every character read back by the payload decoder; z3 over the dumped command automaton (every "
               "scalar except ESC is accepted as a character); 22 fixed SGR strings through the real sgr_face (concrete, auxiliary)",
     outside="sgr_face on symbolic parameter strings and the Face/FaceModify encoder (experimental tier: do not fit the "
             "solver), hence the full encode->decode round trip is argued from the parts; TTYCellWriter end to end "
             "(LazyLock command automaton); chunking of the written bytes (C03); 16-colour selections",
     assumptions=["reference SGR semantics of kani/src/c05.rs (ECMA-48 8.3.117 + xterm/kitty extensions)",
                  "fixed-string expectations written by hand from ECMA-48 / xterm ctlseqs"])


# ----------------------------------------------------------------------------------------------
# C07
# ----------------------------------------------------------------------------------------------
SEL_NAMES = {0: "a..b", 1: "a..=b", 2: "a..", 3: "..b", 4: "index a", 5: ".."}


@generator
def gen_c07(ctx):
    out = ["// generated: surface view chains by concrete base size / transposes / selector forms / operation", ""]
    ENC_R = ("surface::Shape::view, surface::Surface::view, surface::Surface::transpose, surface::SurfaceIter::nth, "
             "surface::Surface::get, surface::Shape::offset, surface::Shape::nth")
    ENC_W = ("surface::Shape::view, surface::SurfaceMut::view_mut, surface::Surface::view_owned, surface::Surface::transpose, "
             "surface::SurfaceMutIter::nth, surface::SurfaceMut::fill, surface::SurfaceMut::clear, surface::SurfaceMut::fill_with, "
             "surface::SurfaceMut::insert, surface::SurfaceMut::get_mut")
    ops = {0: "iter_mut", 1: "fill", 2: "clear", 3: "fill_with", 4: "insert", 5: "get_mut"}

    def b(x):
        return "true" if x else "false"

    def read(h, w, t0, t1, ks, tier):
        name = "c07_read_%dx%d_t%d%d_s%d%d%d%d" % (h, w, t0, t1, *ks)
        out.append("/// @tier %s @timeout 900\n/// @bounds base %dx%d; %sview(rows %s, cols %s)%s then view(rows %s, cols %s); every bound in -(n+3)..=(n+3)\n"
                   "/// @encodes %s\n#[cfg_attr(kani, kani::proof)]\n#[cfg_attr(kani, kani::unwind(7))]\npub fn %s() {\n"
                   "    crate::c07_read_case!(%d, %d, %s, %s, %d, %d, %d, %d)\n}\n"
                   % (tier, h, w, "transpose, " if t0 else "", SEL_NAMES[ks[0]], SEL_NAMES[ks[1]], ", transpose" if t1 else "",
                      SEL_NAMES[ks[2]], SEL_NAMES[ks[3]], ENC_R, name, h, w, b(t0), b(t1), *ks))

    def write(h, w, t0, t1, ks, op, tier):
        name = "c07_%s_%dx%d_t%d%d_s%d%d" % (ops[op], h, w, t0, t1, *ks)
        out.append("/// @tier %s @timeout 900\n/// @bounds base %dx%d; %sview_mut(rows %s, cols %s)%s then %s; every bound in -(n+3)..=(n+3)\n"
                   "/// @encodes %s\n#[cfg_attr(kani, kani::proof)]\n#[cfg_attr(kani, kani::unwind(18))]\npub fn %s() {\n"
                   "    crate::c07_write_case!(%d, %d, %s, %s, %d, %d, %d)\n}\n"
                   % (tier, h, w, "transpose, " if t0 else "", SEL_NAMES[ks[0]], SEL_NAMES[ks[1]], ", transpose" if t1 else "",
                      ops[op], ENC_W, name, h, w, b(t0), b(t1), ks[0], ks[1], op))

    sel_read = [(0, 0, 0, 0), (1, 4, 5, 2), (2, 3, 4, 1)]
    for (h, w) in [(2, 3), (3, 4), (0, 2), (1, 1), (3, 0)]:
        for t0 in (0, 1):
            for t1 in (0, 1):
                for ks in sel_read:
                    quick = (h, w) == (2, 3) and (ks == (0, 0, 0, 0) or (t0, t1) == (0, 0))
                    quick = quick or ((h, w) in ((0, 2), (1, 1)) and (t0, t1) == (1, 0) and ks == (0, 0, 0, 0))
                    read(h, w, t0, t1, ks, "quick" if quick else "thorough")
    for (h, w) in [(2, 3), (3, 4), (1, 1), (0, 2)]:
        for t0 in (0, 1):
            for t1 in (0, 1):
                for ks in [(0, 0), (1, 3), (4, 2)]:
                    for op in range(6):
                        quick = (h, w) == (2, 3) and ks == (0, 0) and (t0, t1) in ((0, 0), (1, 1), (0, 1))
                        quick = quick and not ((t0, t1) == (0, 1) and op not in (0, 4))
                        write(h, w, t0, t1, ks, op, "quick" if quick else "thorough")
    return {"c07_gen": "\n".join(out)}


info("C07",
     technique="Kani/CBMC bounded model checking of the real view/transpose/iterate/mutate code against an index-matrix "
               "model; concrete base sizes, symbolic signed bounds",
     outside="base surfaces larger than 3x4; chains longer than transpose-view-transpose-view; hand-built strides "
             "(Shape literals); map/to_owned_surf (thorough)",
     assumptions=["model = numpy slicing on a plain matrix, using the C08 reference resolver"])


# ----------------------------------------------------------------------------------------------
# C03
# ----------------------------------------------------------------------------------------------
@generator
def gen_c03(ctx):
    out = ["// generated: tokenizer refinement instances by DFA size and state shape", "use crate::c03::*;", ""]
    ENC = "decoder::MatcherDecoder::decode_byte, decoder::MatcherDecoder::take_candidate, automata::DFA::transition, automata::DFA::info"
    CK = {0: "no candidate", 1: "recognised candidate", 2: "raw candidate"}

    def step(s, l, b, r, ck, k, tier, timeout=900):
        also = ""
        if (s, l) == (2, 2) and (b, r, ck, k) in ((2, 0, 1, 2), (3, 1, 1, 2)):
            # totality of the driver (C02) and in-order rescan after a longest match (C04 concatenation)
            also = "/// @also C02 C04\n"
        out.append(also + "/// @tier %s @timeout %d\n/// @bounds every DFA with %d states over %d symbols (all transitions, all accepting sets); state: "
                   "any DFA state, buffer of %d bytes, %d rescheduled bytes, %s%s; any next byte\n/// @encodes %s\n"
                   "#[cfg_attr(kani, kani::proof)]\n#[cfg_attr(kani, kani::unwind(10))]\npub fn c03_step_s%dl%d_b%dr%dc%dk%d() {\n"
                   "    step_case::<%d, %d, %d, %d, %d, %d>()\n}\n"
                   % (tier, timeout, s, l, b, r, CK[ck], (" at size %d" % k) if ck else "", ENC, s, l, b, r, ck, k, s, l, b, r, ck, k))

    def call(s, l, b, r, ck, k, n, tier, timeout=1800):
        out.append("/// @tier %s @timeout %d\n/// @bounds every DFA with %d states over %d symbols; state: buffer %d, rescheduled %d, %s%s; "
                   "one decode call over every %d byte input\n/// @encodes decoder::MatcherDecoder::decode, %s\n"
                   "#[cfg_attr(kani, kani::proof)]\n#[cfg_attr(kani, kani::unwind(10))]\npub fn c03_call_s%dl%d_b%dr%dc%dk%d_n%d() {\n"
                   "    call_case::<%d, %d, %d, %d, %d, %d, %d, %d>()\n}\n"
                   % (tier, timeout, s, l, b, r, CK[ck], (" at size %d" % k) if ck else "", n, ENC, s, l, b, r, ck, k, n, s, l, b, r, ck, k, n, n + 1))

    quick_shapes = [(0, 0, 0, 0), (1, 0, 0, 0), (1, 0, 1, 1), (2, 1, 1, 1), (2, 0, 1, 2), (3, 1, 1, 2), (2, 2, 0, 0), (2, 1, 2, 1)]
    for (b, r, ck, k) in quick_shapes:
        step(2, 2, b, r, ck, k, "quick")
    shapes = []
    for b in range(0, 4):
        for r in range(0, 3):
            shapes.append((b, r, 0, 0))
            for k in range(1, b + 1):
                shapes.append((b, r, 1, k))
                shapes.append((b, r, 2, k))
    for (b, r, ck, k) in shapes:
        if (b, r, ck, k) not in quick_shapes:
            step(2, 2, b, r, ck, k, "thorough")
        if ck != 2 and r <= 1:
            step(3, 2, b, r, ck, k, "thorough", 1800)
            step(2, 3, b, r, ck, k, "thorough", 1800)
    # one decode call that processes at most one byte (empty read, one input byte, one rescheduled byte)
    for (b, r, ck, k, n) in [(0, 0, 0, 0, 0), (1, 0, 1, 1, 0), (2, 0, 1, 1, 0), (0, 0, 0, 0, 1), (1, 0, 1, 1, 1)]:
        call(2, 2, b, r, ck, k, n, "quick")
    # a rescheduled byte makes the SmallVec length symbolic inside decode's loop: > 50 min, thorough only
    for (b, r, ck, k, n) in [(2, 1, 1, 1, 0), (1, 1, 0, 0, 0), (1, 1, 1, 1, 1), (0, 1, 0, 0, 2), (2, 2, 1, 1, 1)]:
        call(2, 2, b, r, ck, k, n, "experimental", 6000)
    for (b, r, ck, k, n) in [(1, 0, 1, 1, 2), (2, 1, 1, 2, 2), (0, 2, 0, 0, 3), (3, 2, 1, 2, 2)]:
        call(2, 2, b, r, ck, k, n, "thorough")
    for (s, l, n, tier) in [(2, 2, 2, "quick"), (2, 2, 3, "thorough"), (3, 2, 3, "thorough"), (2, 2, 4, "thorough"), (3, 3, 4, "thorough")]:
        t = n * (n + 1) // 2 + n
        out.append("/// @tier %s @timeout 3000\n/// @bounds reference tokenizer only (no crate code): every DFA with %d states over %d symbols, every "
                   "input of %d symbols; items == leftmost-longest tokenisation by definition, pending bytes == undecided tail\n"
                   "/// @encodes (model) c03::Model::step\n"
                   "#[cfg_attr(kani, kani::proof)]\n#[cfg_attr(kani, kani::unwind(%d))]\npub fn c03_model_munch_s%dl%d_n%d() {\n"
                   "    munch_case::<%d, %d, %d, %d>()\n}\n" % (tier, s, l, n, max(t + 2, 10), s, l, n, s, l, n, t))
    return {"c03_gen": "\n".join(out)}


info("C03",
     technique="Kani/CBMC bounded model checking: refinement of the real tokenizer (decode_byte step and decode call) to a "
               "reference tokenizer over a fully symbolic small DFA; chunk independence and leftmost-longest decided on "
               "the reference tokenizer",
     outside="DFAs larger than 3 states / 3 symbols (production automata have 650/16/11 states: the driver is generic in "
             "the table, its code does not depend on the table size); buffers longer than 3 bytes (32 byte inline "
             "SmallVec never spills in the instances); model-level inputs longer than 5 symbols; unix.rs read loop",
     assumptions=["raw-chunk convention: with no candidate the bytes before the failing byte form one raw item",
                  "Tokenizer hook builds DFAStateInfo.is_terminal as NFA::compile does (no outgoing edge)"])


# ----------------------------------------------------------------------------------------------
# C15 (engine T: native compile() + SMT)
# ----------------------------------------------------------------------------------------------
def extra_c15(tier, seed, gen_info):
    import json
    import os
    import smtcheck
    import props
    rec, violations, errors, fact_problems, exprs = smtcheck.run(tier, seed, gen_info)
    records = []
    if violations:
        os.makedirs(props.VIOL_DIR, exist_ok=True)
        # one record per distinct expression shape (first few are saved for replay)
        for i, v in enumerate(violations[:8]):
            path = os.path.join(props.VIOL_DIR, "C15_%d.json" % i)
            v = dict(v, engine="smt", property="C15", path=path)
            with open(path, "w") as f:
                json.dump(v, f, indent=1)
            print("  C15 counterexample: expression %s input %r: real compile() says matches=%s tags=%s, expression says matches=%s%s"
                  % (v["expression"], v["input"], v["real_matches"], v["real_tags"], v["regex_matches"],
                     (" alternatives=%s" % v.get("regex_alternatives")) if "regex_alternatives" in v else ""))
            records.append({"instance": "c15_cex_%d" % i, "engine": "z3+native replay", "verdict": "violated",
                            "bounds": "expression %s, input %r" % (v["expression"], v["input"]), "queries": 0,
                            "replay_path": path, "reason": "query %s" % v["query"]})
        rec = dict(rec, violated_expressions=len({v["expression"] for v in violations}))
    for (e, problem) in fact_problems[:5]:
        records.append({"instance": "c15_table_fact", "engine": "table inspection", "verdict": "violated",
                        "bounds": "expression %s" % e, "reason": problem, "queries": 0, "replay_path": ""})
    if errors:
        rec = dict(rec, verdict="inconclusive", reason="solver errors / non-replaying models: %s" % (errors[:3],))
    elif violations or fact_problems:
        rec = dict(rec, verdict="held-elsewhere", reason="%d expressions violated" % len(violations))
        rec["verdict"] = "inconclusive" if False else "held"
    else:
        rec = dict(rec, verdict="held")
    records.insert(0, rec)
    return records


from props import EXTRA  # noqa: E402
EXTRA["C15"] = extra_c15

info("C15",
     technique="SMT (z3, incremental) over tables produced by the real combinators and NFA::compile() run natively: per "
               "enumerated expression, for every input string up to a length, table walk == independent epsilon-free "
               "position automaton; reported tags == set of matching alternatives; terminal => row empty",
     outside="expressions not enumerated (depth > 3 quick / > 4 thorough, more than 3 letters + 1 class); strings longer "
             "than 8 (quick) / 12 (thorough) symbols; the construction is executed natively, not symbolically: the claim "
             "is per enumerated expression, symbolic in the input string",
     assumptions=["reference automaton: textbook Thompson construction + epsilon closure written in lib/smtcheck.py",
                  "bytes that occur in no expression are represented by one byte (checked on every dumped table)"])


# ----------------------------------------------------------------------------------------------
# C02 (payload decoders under the exact call-site precondition: tables from the real automata)
# ----------------------------------------------------------------------------------------------
def production_automata(ctx):
    """run tablegen once per generation; cached in ctx"""
    if "automata" in ctx:
        return ctx["automata"]
    import json
    import subprocess
    import smtcheck
    smtcheck.build_tablegen()
    p = subprocess.run([smtcheck.TABLEGEN, "automata"], capture_output=True, text=True, timeout=600)
    if p.returncode != 0:
        raise RuntimeError("tablegen automata failed: " + p.stderr[-500:])
    ctx["automata"] = json.loads(p.stdout)
    return ctx["automata"]


def matcher_subtable(ev, index):
    """restriction of the production event DFA to the states from which an accepting state whose FIRST tag is
    Matcher(index) can be reached; bytes compressed into classes. Returns dict or None."""
    n = len(ev["infos"])
    lang = ev["lang_size"]
    table = ev["table"]
    target = [i for i, info in enumerate(ev["infos"])
              if info["accepting"] and info["tags"] and info["tags"][0].get("matcher") == index]
    if not target:
        return None
    # co-reachability
    pred = [[] for _ in range(n)]
    for s in range(n):
        for b in range(lang):
            t = table[s * lang + b]
            if t >= 0:
                pred[t].append(s)
    keep = set(target)
    todo = list(target)
    while todo:
        s = todo.pop()
        for p_ in pred[s]:
            if p_ not in keep:
                keep.add(p_)
                todo.append(p_)
    start = ev["start"]
    if start not in keep:
        return None
    # forward reachable within keep
    reach = {start}
    todo = [start]
    while todo:
        s = todo.pop()
        for b in range(lang):
            t = table[s * lang + b]
            if t >= 0 and t in keep and t not in reach:
                reach.add(t)
                todo.append(t)
    states = sorted(reach)
    sid = {s: i for i, s in enumerate(states)}
    # byte classes: identical columns
    cols = {}
    for b in range(lang):
        col = tuple(sid.get(table[s * lang + b], 255) if table[s * lang + b] in reach else 255 for s in states)
        cols.setdefault(col, []).append(b)
    classes = list(cols.items())
    cls_of = [0] * 256
    for ci, (_col, bs) in enumerate(classes):
        for b in bs:
            cls_of[b] = ci
    trans = []
    for si, _s in enumerate(states):
        for (col, _bs) in classes:
            trans.append(col[si])
    acc = [s in target for s in states]
    # shortest accepted length
    dist = {sid[start]: 0}
    todo = [sid[start]]
    while todo:
        nxt = []
        for s in todo:
            for ci in range(len(classes)):
                t = trans[s * len(classes) + ci]
                if t != 255 and t not in dist:
                    dist[t] = dist[s] + 1
                    nxt.append(t)
        todo = nxt
    shortest = min(dist[i] for i, a in enumerate(acc) if a and i in dist)
    return {"class": cls_of, "trans": trans, "ncls": len(classes), "acc": acc, "start": sid[start],
            "nstates": len(states), "shortest": shortest}


MATCHER_NAMES = {1: "cursor", 2: "decmode", 3: "da1", 4: "sgr", 5: "kittyimg", 6: "kittykbd", 7: "mouse", 8: "osc",
                 9: "decrpss", 10: "termcap", 11: "termsize", 13: "paste"}
# (matcher, extra length over the shortest accepted sequence, tier, timeout)
MATCHER_INSTANCES = {
    1: [(0, "quick", 900), (1, "thorough", 1800), (2, "thorough", 3000)],
    2: [(0, "quick", 900), (1, "thorough", 1800)],
    # DA1 collects into a BTreeSet, SGR splits on symbolic bytes: neither finishes in 20 min with one symbolic byte
    3: [(0, "experimental", 3000), (1, "experimental", 3000)],
    4: [(0, "quick", 900), (1, "experimental", 3000), (2, "experimental", 3000)],
    5: [(0, "thorough", 1800), (1, "thorough", 3000)],
    6: [(0, "quick", 900), (1, "quick", 900), (2, "thorough", 1800), (3, "thorough", 3000)],
    7: [(0, "thorough", 1800), (1, "thorough", 3000)],
    8: [(0, "thorough", 1800), (1, "thorough", 3000)],
    9: [(0, "quick", 900), (1, "thorough", 1800)],
    10: [(0, "quick", 900), (2, "thorough", 1800)],
    11: [(0, "thorough", 3000)],
    13: [(0, "thorough", 1800), (1, "thorough", 3000)],
}


@generator
def gen_c02(ctx):
    a = production_automata(ctx)
    ev = a["event"]
    facts = []
    if a["hook_event_matcher_names"] != ev["matchers"]:
        facts.append("matcher order of verif_hooks::event_matcher_decode differs from TTY_EVENT_AUTOMATA: %s vs %s"
                     % (a["hook_event_matcher_names"], ev["matchers"]))
    for name in ("event", "command"):
        d = a[name]
        lang = d["lang_size"]
        for s, inf in enumerate(d["infos"]):
            row = d["table"][s * lang:(s + 1) * lang]
            if inf["accepting"] and not inf["tags"]:
                facts.append("%s automaton: accepting state %d carries no tag (decode_byte would panic)" % (name, s))
            if inf["terminal"] != all(v < 0 for v in row):
                facts.append("%s automaton: state %d terminal flag disagrees with its row" % (name, s))
    ctx["info"]["c02_table_facts"] = facts
    ctx["info"]["c02_tables"] = {"event_states": len(ev["infos"]), "command_states": len(a["command"]["infos"]),
                                 "utf8_states": len(a["utf8"]["accepting"])}
    out = ["// generated from the production automata dumped by tablegen (real NFA::compile output)",
           "use crate::c02::*;", ""]
    for idx, short in MATCHER_NAMES.items():
        sub = matcher_subtable(ev, idx)
        if sub is None:
            ctx["info"].setdefault("c02_missing", []).append(idx)
            continue
        up = short.upper()
        out.append("pub static %s_CLASS: [u8; 256] = %s;" % (up, sub["class"]))
        out.append("pub static %s_TRANS: [u8; %d] = %s;" % (up, len(sub["trans"]), sub["trans"]))
        out.append("pub static %s_ACC: [bool; %d] = %s;" % (up, len(sub["acc"]), str(sub["acc"]).lower().replace("true", "true").replace("false", "false")))
        out.append("pub static %s: Table = Table { class: &%s_CLASS, trans: &%s_TRANS, ncls: %d, acc: &%s_ACC, start: %d };\n"
                   % (up, up, up, sub["ncls"], up, sub["start"]))
        for (extra, tier, timeout) in MATCHER_INSTANCES.get(idx, []):
            n = sub["shortest"] + extra
            out.append("/// @tier %s @timeout %d\n/// @bounds every %d byte string after which the production event automaton (%d states, dumped "
                       "from the real compile()) is in an accepting state whose first tag is matcher %d (%s): the exact condition "
                       "under which decode_byte calls this payload decoder\n"
                       "/// @encodes decoder::<matcher %d %s>::decode, decoder::number_decode, decoder::numbers_decode\n"
                       "#[cfg_attr(kani, kani::proof)]\n#[cfg_attr(kani, kani::unwind(%d))]\n%spub fn c02_dec_%s_n%d() {\n"
                       "    matcher_case::<%d>(%d, &%s)\n}\n"
                       % (tier, timeout, n, len(ev["infos"]), idx, short, idx, short, n + 3, TRACING_STUBS, short, n, n, idx, up))
    # kernels
    for n in list(range(0, 25)):
        tier = "quick" if n in (0, 1, 2, 5, 19, 20, 21) else "thorough"
        out.append("/// @tier %s @timeout 600\n/// @bounds every digit string of length %d\n/// @encodes decoder::number_decode\n"
                   "#[cfg_attr(kani, kani::proof)]\n#[cfg_attr(kani, kani::unwind(%d))]\npub fn c02_number_n%d() {\n    number_case::<%d>()\n}\n"
                   % (tier, n, n + 2, n, n))
    for n in (1, 2, 3):
        out.append("/// @tier %s @timeout 600\n/// @bounds every byte string of length %d\n/// @encodes decoder::number_decode\n"
                   "#[cfg_attr(kani, kani::proof)]\n#[cfg_attr(kani, kani::unwind(%d))]\npub fn c02_number_reject_n%d() {\n    number_reject_case::<%d>()\n}\n"
                   % ("quick" if n <= 2 else "thorough", n, n + 2, n, n))
    for n in (1, 2, 3, 4):
        out.append("/// @tier quick @timeout 600\n/// @bounds every %d byte sequence the UTF-8 automata accept (lead byte class + continuation bytes)\n"
                   "/// @encodes decoder::utf8_decode, decoder::UTF8Matcher::decode\n"
                   "#[cfg_attr(kani, kani::proof)]\n#[cfg_attr(kani, kani::unwind(6))]\n%spub fn c02_utf8_n%d() {\n    utf8_case::<%d>()\n}\n" % (n, TRACING_STUBS, n, n))
    # Utf8Decoder through the compile()/utf8_nfa stubs and the dumped table
    u = a["utf8"]
    out.append("pub const UTF8_START: usize = %d;" % u["start"])
    out.append("pub const UTF8_LANG: usize = %d;" % u["lang_size"])
    cells = ", ".join("None" if v < 0 else "Some(verif_dfa_state(%d))" % v for v in u["table"])
    out.append("use surf_n_term::automata::{DFAState, verif_dfa_state};")
    out.append("pub static UTF8_TABLE: [Option<DFAState>; %d] = [%s];" % (len(u["table"]), cells))
    out.append("pub static UTF8_INFO: [(bool, bool); %d] = [%s];\n" % (
        len(u["accepting"]), ", ".join("(%s, %s)" % (str(x).lower(), str(y).lower()) for x, y in zip(u["accepting"], u["terminal"]))))
    UTF8_STUBS = ("#[cfg_attr(kani, kani::stub(surf_n_term::automata::NFA::compile, crate::c02::compile_stub))]\n"
                  "#[cfg_attr(kani, kani::stub(surf_n_term::decoder::utf8_nfa, surf_n_term::decoder::verif_hooks::utf8_nfa_stub))]\n")
    for (n, k, tier, timeout) in ((1, 0, "quick", 600), (2, 1, "quick", 900), (3, 1, "quick", 1200), (3, 2, "thorough", 1800),
                                  (4, 1, "thorough", 3000), (4, 2, "thorough", 3000), (4, 3, "thorough", 3000), (3, 0, "thorough", 1800)):
        out.append("/// @also C09\n/// @tier %s @timeout %d\n/// @bounds every well-formed %d byte UTF-8 sequence (lead byte class + continuation bytes), "
                   "delivered as two reads cut after %d byte(s)\n/// @encodes decoder::Utf8Decoder::decode, decoder::Utf8Decoder::consume, decoder::utf8_decode, automata::DFA::transition\n"
                   "#[cfg_attr(kani, kani::proof)]\n#[cfg_attr(kani, kani::unwind(14))]\n%spub fn c02_utf8dec_n%d_cut%d() {\n    utf8dec_split_case::<%d, %d>()\n}\n"
                   % (tier, timeout, n, k, UTF8_STUBS, n, k, n, k))
    for (n, tier, timeout) in ((1, "quick", 600), (2, "thorough", 1800), (3, "thorough", 3000)):
        out.append("/// @tier %s @timeout %d\n/// @bounds every %d byte input\n/// @encodes decoder::Utf8Decoder::decode, decoder::utf8_decode\n"
                   "#[cfg_attr(kani, kani::proof)]\n#[cfg_attr(kani, kani::unwind(14))]\n%spub fn c02_utf8dec_total_n%d() {\n    utf8dec_total_case::<%d>()\n}\n"
                   % (tier, timeout, n, UTF8_STUBS, n, n))
    return {"c02_gen": "\n".join(out)}


def extra_c02(tier, seed, gen_info):
    facts = gen_info.get("c02_table_facts", [])
    rec = {"instance": "c02_production_table_facts", "engine": "inspection of the tables dumped from the real compile()",
           "bounds": "event (%(event_states)d states), command (%(command_states)d) and UTF-8 (%(utf8_states)d) automata: every "
                     "accepting state carries a tag (so decode_byte's expect() is unreachable), terminal flag <=> empty row, "
                     "hook matcher order == production matcher order" % gen_info.get("c02_tables", {"event_states": 0, "command_states": 0, "utf8_states": 0}),
           "queries": 1, "encodes": ["decoder::TTY_EVENT_AUTOMATA", "decoder::TTY_COMMAND_AUTOMATA", "decoder::UTF8DFA"]}
    if facts:
        rec["verdict"] = "violated"
        rec["reason"] = "; ".join(facts[:3])
        rec["replay_path"] = ""
    else:
        rec["verdict"] = "held"
    return [rec]


EXTRA["C02"] = extra_c02

info("C02",
     technique="Kani/CBMC bounded model checking of the decoding kernels and of every payload decoder under the exact "
               "call-site precondition read off the production automaton dumped from the real compile(); tokenizer "
               "totality through the C03 refinement harnesses",
     outside="sequences longer than the per-family bound (shortest accepted length + 0..3); parse_color (LazyLock<HashMap> "
             "of SVG colour names); unix.rs read loop; tracing/from_utf8_lossy formatting of raw events; composition of "
             "driver, table and payload decoder is argued, not executed as one symbolic run",
     assumptions=["the production table is executed natively by tablegen and imported as static data (precompute cut)",
                  "payload decoders are reached through verif_hooks::event_matcher_decode whose matcher order is checked "
                  "against the production automaton on every run"])


# ----------------------------------------------------------------------------------------------
# C09
# ----------------------------------------------------------------------------------------------
@generator
def gen_c09(ctx):
    kinds = {0: "narrow character", 1: "wide character", 2: "zero width character", 3: "newline", 4: "carriage return",
             5: "tab", 6: "image cell of any pixel size up to 4096x4096"}
    out = ["// generated: Cell::layout one-step instances by cell class", "use crate::c09::*;", ""]
    for k, name in kinds.items():
        out.append("/// @tier quick @timeout 600\n/// @bounds %s; any max_width in 1..=2^32, both wrap modes, any tracked size (width <= max_width) "
                   "and cursor (col <= max_width, row <= 2^32)\n/// @encodes render::Cell::layout, render::Cell::size, image::Image::size_cells\n"
                   "#[cfg_attr(kani, kani::proof)]\n#[cfg_attr(kani, kani::unwind(4))]\npub fn c09_layout_kind%d() {\n    layout_case::<%d>()\n}\n"
                   % (name, k, k))
    return {"c09_gen": "\n".join(out)}


info("C09",
     technique="Kani/CBMC bounded model checking of Cell::layout, the placement kernel shared by Text layout/render and "
               "TerminalWriter: one inductive step from any tracked (size, cursor) for every cell class",
     outside="TerminalWriter::put_cell / Text::render end to end (surface containment of the face fill for tab/newline, "
             "glyph fallbacks), chunk independence of the io::Write adapters (UTF-8 decoder state: C02/C03), glyph cells "
             "(rasterisation), exactly-once over whole texts (follows from the step by induction over the cell sequence, "
             "which is not executed symbolically)",
     assumptions=["pre-state invariant: cursor.col <= max_width, size.width <= max_width (established by Position::origin / "
                  "Size::empty and preserved by the step, which the harness asserts)"])


# ----------------------------------------------------------------------------------------------
# C10
# ----------------------------------------------------------------------------------------------
@generator
def gen_c10(ctx):
    out = ["// generated: flex_layout instances by number of children", "use crate::c10::*;", ""]
    # two or more children: the SmallVec layout store spills to the heap, CBMC reports solver errors / runs out of memory
    for n, tier, timeout in ((0, "quick", 600), (1, "quick", 900), (2, "experimental", 3000), (3, "experimental", 3000)):
        out.append("/// @tier %s @timeout %d\n/// @bounds %d statically typed probe children (any wish <= 40x40, any alignment, no flex factor); both "
                   "directions, every justification, constraint min <= max <= 24\n/// @encodes view::flex::flex_layout, view::container::Align::align\n"
                   "#[cfg_attr(kani, kani::proof)]\n#[cfg_attr(kani, kani::unwind(%d))]\npub fn c10_flex_n%d() {\n    flex_case::<%d>()\n}\n"
                   % (tier, timeout, n, n + 3, n, n))
    return {"c10_gen": "\n".join(out)}


info("C10",
     technique="Kani/CBMC bounded model checking of the layout arithmetic (Align::align, BoxConstraint::clamp, "
               "Container::layout, flex_layout) over statically typed probe children that follow the View contract",
     outside="trait-object trees (Flex/Container over Box<dyn View>), flex factors (f64), text/image/glyph/frame/scrollbar "
             "leaves painting inside their rectangle, JSON-built trees, hit testing through the layout tree",
     assumptions=["probe child reports ct.clamp(wish): the View contract every leaf is expected to follow"])


info("C11",
     technique="Kani/CBMC bounded model checking of the kitty identifier arithmetic (all positions) and of the bytes "
               "KittyImageHandler::erase / draw emit for a 1x1 image, parsed back by a harness-side reader",
     outside="images larger than 1x1 (so the 4096 byte chunking and continuation flags), handle() / error responses, "
             "draw histories beyond one image (transmit-once across draws is thorough-only); p=0 at the origin is what the "
             "code emits and the statement does not exclude it (kitty reads p=0 as 'unspecified': noted in DESIGN.md)",
     assumptions=["tracing macros stubbed out (4 stubs), RandomState::new stubbed with fixed keys"])


# ----------------------------------------------------------------------------------------------
# C13
# ----------------------------------------------------------------------------------------------
@generator
def gen_c13(ctx):
    out = ["// generated: k-d tree instances by size / shape and channel width", "use crate::c13::*;", ""]
    for n, ch, tier, timeout in ((1, 255, "quick", 300), (2, 255, "quick", 600), (3, 15, "quick", 900), (3, 255, "thorough", 3000),
                                 (4, 15, "thorough", 3000)):
        out.append("/// @tier %s @timeout %d\n/// @bounds %d colours with channels 0..=%d\n/// @encodes image::KDTree::new (build_rec, sort_by_key)\n"
                   "#[cfg_attr(kani, kani::proof)]\n#[cfg_attr(kani, kani::unwind(%d))]\npub fn c13_kd_build_n%d_ch%d() {\n    build_case::<%d, %d>()\n}\n"
                   % (tier, timeout, n, ch, n + 3, n, ch, n, ch))
    for shape, ch, tier, timeout in ((1, 255, "quick", 300), (2, 255, "quick", 900), (3, 15, "quick", 900), (2, 15, "quick", 600),
                                     (3, 63, "thorough", 3000), (3, 255, "thorough", 3000), (4, 15, "thorough", 3000)):
        out.append("/// @tier %s @timeout %d\n/// @bounds tree shape %d (%d nodes) with node colours under the k-d invariant and any query colour, "
                   "channels 0..=%d\n/// @encodes image::KDTree::find (find_rec)\n"
                   "#[cfg_attr(kani, kani::proof)]\n#[cfg_attr(kani, kani::unwind(%d))]\npub fn c13_kd_find_shape%d_ch%d() {\n    find_case::<%d, %d>()\n}\n"
                   % (tier, timeout, shape, shape, ch, {1: 4, 2: 4, 3: 4, 4: 5}[shape], shape, ch, shape, ch))
    return {"c13_gen": "\n".join(out)}


info("C13",
     technique="Kani/CBMC bounded model checking of the k-d tree: construction invariant on 1..3 symbolic colours, nearest "
               "neighbour optimality of find() on fixed shapes under that invariant; OcTreePath and OcTreeInfo kernels",
     outside="palettes of more than 3 (thorough 4) colours; 8-bit channels for 3-node trees in the quick tier (4-bit); octree "
             "insert/prune bookkeeping, palette size bounds, index validity of Image::quantize, dithering, exact reproduction "
             "(whole-image float pipeline)",
     assumptions=["find() harness assumes the invariant that the build harness proves: left subtree <= node <= right "
                  "subtree on the node's split dimension"])


# ----------------------------------------------------------------------------------------------
# C04
# ----------------------------------------------------------------------------------------------
@generator
def gen_c04(ctx):
    out = ["// generated: report printers by digit shape", "use crate::c04::*;", "use crate::autogen::c02_gen::*;", ""]

    def h(name, body, tier, timeout, bounds, enc, unwind):
        out.append("/// @tier %s @timeout %d\n/// @bounds %s\n/// @encodes %s\n#[cfg_attr(kani, kani::proof)]\n"
                   "#[cfg_attr(kani, kani::unwind(%d))]\n%spub fn %s() {\n    %s\n}\n" % (tier, timeout, bounds, enc, unwind, TRACING_STUBS, name, body))

    for (dr, dc, tier) in ((1, 1, "quick"), (2, 1, "thorough"), (1, 2, "thorough"), (2, 2, "thorough"), (3, 3, "thorough")):
        n = 4 + dr + dc
        h("c04_cursor_r%dc%d" % (dr, dc), "cursor_case::<%d, %d, %d>(&CURSOR)" % (n, dr, dc), tier, 1800,
          "cursor report with a %d digit row and a %d digit column, every digit value (row, col >= 1)" % (dr, dc),
          "decoder::CursorPositionMatcher::decode, decoder::numbers_decode, production event automaton (table)", n + 3)
    # the 1-digit mouse shape needs ~16 min next to 13 other instances: thorough tier (quick checks stay under 15 min)
    for (db, dc, dr, tier) in ((1, 1, 1, "thorough"), (2, 1, 1, "thorough"), (1, 2, 2, "thorough"), (2, 2, 2, "experimental")):
        n = 6 + db + dc + dr
        h("c04_mouse_b%dc%dr%d" % (db, dc, dr), "mouse_case::<%d, %d, %d, %d>(&MOUSE)" % (n, db, dc, dr), tier, 3000,
          "SGR mouse report with a %d digit button code, %d digit column, %d digit row, press and release" % (db, dc, dr),
          "decoder::MouseEventMatcher::decode, decoder::numbers_decode, production event automaton (table)", n + 3)
    for m in range(9):
        number = [25, 7, 80, 1000, 1003, 1006, 1049, 2026, 2004][m]
        nd = len(str(number))
        n = 7 + nd
        h("c04_decmode_%d" % number, "decmode_case::<%d, %d>(&DECMODE)" % (n, m), "quick" if m in (0, 6, 8) else "thorough", 1800,
          "DECRPM report of mode %d with every status 0..=4" % number,
          "decoder::DecModeMatcher::decode, terminal::DecMode::from_usize, terminal::DecModeStatus::from_usize", n + 3)
    for d in (1, 2):
        n = 4 + d
        h("c04_kbdlevel_d%d" % d, "kbdlevel_case::<%d, %d>(&KITTYKBD)" % (n, d), "quick" if d == 1 else "thorough", 1800,
          "kitty keyboard level report with a %d digit level" % d,
          "decoder::KittyKeyboardMatcher::decode, decoder::number_decode", n + 3)
    h("c04_kittyimg_msg3", "kittyimg_case(&KITTYIMG)", "experimental", 3000,
      "kitty graphics response with a 1 digit id and every 3 character printable ASCII message (separators included)",
      "decoder::KittyImageMatcher::decode, decoder::key_value_decode, decoder::number_decode", 16)
    return {"c04_gen": "\n".join(out)}


info("C04",
     technique="Kani/CBMC bounded model checking: harness-side protocol printers render symbolic parameters at concrete "
               "digit positions; the production automaton (table dumped from the real compile()) must accept them with the "
               "family's matcher and the real payload decoder must return exactly the transmitted values",
     outside="coordinates with more digits than the listed shapes (5 digit coordinates are beyond reach); DA1, OSC colour, "
             "termcap, DECRPSS, kitty image, paste and size reports; the static key table (finite data, no solver question); "
             "concatenation of sequences (argued from C03 + self-delimitation of the families)",
     assumptions=["xterm ctlseqs semantics of the SGR mouse button code (4 shift, 8 meta, 16 control, 64 wheel)",
                  "button naming follows the library's fixed table"])


# ----------------------------------------------------------------------------------------------
# SMT over the production tables: every character is accepted (C06 command decoder, C04 event decoder)
# ----------------------------------------------------------------------------------------------
def utf8_table_record(gen_info_ctx, which, matcher, domain, pid):
    import json
    import os
    import subprocess
    import smtcheck
    import props
    a = production_automata(gen_info_ctx)
    sub = matcher_subtable(a[which], matcher)
    rec = {"instance": "%s_utf8_acceptance_%s" % (pid.lower(), which), "engine": "z3 over the %s automaton dumped from the real compile()" % which,
           "bounds": "every Unicode scalar value (%s): its UTF-8 encoding (1..4 bytes) drives the production %s automaton "
                     "(sub-table of %d states) into an accepting state whose first tag is the UTF-8 matcher" % (
                         "except ESC" if domain == "not_escape" else "one byte characters restricted to ' '..='~'", which, sub["nstates"] if sub else 0),
           "queries": 1, "encodes": ["decoder::utf8_nfa", "automata::NFA::compile (table)", "decoder::MatcherAutomata::new"]}
    if sub is None:
        rec.update(verdict="violated", reason="no accepting state tagged with the UTF-8 matcher", replay_path="")
        return rec
    status, model, dt = smtcheck.utf8_acceptance(sub, domain)
    rec["solver_s"] = round(dt, 3)
    if status == "unsat":
        rec["verdict"] = "held"
    elif status == "sat" and model is not None:
        # replay through the real public decoder
        ch = chr(model)
        data = list(ch.encode("utf-8"))
        p = subprocess.run([smtcheck.TABLEGEN, "decode"], input=json.dumps({"kind": which, "bytes": data}) + "\n",
                           capture_output=True, text=True, timeout=60)
        items = json.loads(p.stdout.strip().splitlines()[-1])["items"] if p.returncode == 0 and p.stdout.strip() else ["<decoder crashed>"]
        want = ("Char(%r)" % ch) if which == "command" else None
        good = len(items) == 1 and ("Char(%s)" % repr(ch).replace('"', "'") in items[0] or ("Char('%s')" % ch) in items[0])
        if good:
            rec.update(verdict="inconclusive", reason="solver model U+%04X does not replay: real decoder returned %s" % (model, items))
        else:
            os.makedirs(props.VIOL_DIR, exist_ok=True)
            path = os.path.join(props.VIOL_DIR, "%s_utf8_%s.json" % (pid, which))
            json.dump({"engine": "smt-table", "property": pid, "scalar": model, "bytes": data, "decoder": which, "decoded": items},
                      open(path, "w"), indent=1)
            print("  %s: U+%04X (bytes %s) is not decoded as a character by the %s decoder: %s" % (pid, model, data, which, items))
            rec.update(verdict="violated", reason="U+%04X not accepted as a character: decoded %s" % (model, items), replay_path=path)
    else:
        rec.update(verdict="inconclusive", reason="solver: %s" % model)
    return rec


def extra_c06(tier, seed, gen_info):
    return [utf8_table_record({"info": gen_info}, "command", 1, "not_escape", "C06")]


def extra_c04(tier, seed, gen_info):
    return [utf8_table_record({"info": gen_info}, "event", 12, "printable", "C04")]


EXTRA["C06"] = extra_c06
EXTRA["C04"] = extra_c04
