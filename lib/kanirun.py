"""Kani driver: discovery of tagged harnesses, batch runs, counterexample extraction, replay.

Everything here is generic; property specific generators live in lib/gen_*.py.
"""
import json
import os
import re
import subprocess
import sys
import time

VERIF = os.path.dirname(os.path.dirname(os.path.abspath(__file__)))
REPO = os.environ.get("VERIF_REPO", "/repo")
KANI_DIR = os.path.join(VERIF, "kani")
CACHE = os.path.join(VERIF, ".cache")
KANI_TARGET = os.path.join(CACHE, "kani")
NATIVE_TARGET = os.path.join(CACHE, "native")
LOGS = os.path.join(CACHE, "logs")
MEM_KB = int(os.environ.get("VERIF_MEM_KB", str(20 * 1024 * 1024)))  # per CBMC process

ENV = dict(os.environ, CARGO_NET_OFFLINE="true")
ENV.pop("RUSTFLAGS", None)

NOISE = re.compile(r"unstable feature|crate attribute|register_tool|^\s+\||^\s+= note|^\s*$")


def _i(x):
    try:
        return int(x or 0)
    except (TypeError, ValueError):
        return 0


def _f(x):
    try:
        return float(x or 0.0)
    except (TypeError, ValueError):
        return 0.0


def sh(cmd, cwd=None, timeout=None, env=None, log=None):
    """run a command, return (rc, output); rc -9 on timeout"""
    start = time.time()
    try:
        p = subprocess.run(
            cmd, cwd=cwd, env=env or ENV, stdout=subprocess.PIPE, stderr=subprocess.STDOUT,
            timeout=timeout, text=True, errors="replace",
        )
        rc, out = p.returncode, p.stdout
    except subprocess.TimeoutExpired as e:
        rc, out = -9, (e.stdout or b"")
        if isinstance(out, bytes):
            out = out.decode(errors="replace")
        out += "\n[driver] TIMEOUT after %ss\n" % timeout
    if log:
        os.makedirs(os.path.dirname(log), exist_ok=True)
        with open(log, "w") as f:
            f.write("$ %s\n" % " ".join(cmd))
            f.write(out)
            f.write("\n[driver] rc=%s wall=%.1fs\n" % (rc, time.time() - start))
    return rc, out


# --------------------------------------------------------------------------------------
# harness discovery
# --------------------------------------------------------------------------------------
HARNESS_RE = re.compile(
    r"((?:[ \t]*///[^\n]*\n)*)"                       # doc comment with @tags
    r"[ \t]*#\[cfg_attr\(kani, kani::proof\)\]\s*\n"
    r"((?:[ \t]*#\[[^\n]*\]\s*\n)*)"                   # further attributes
    r"[ \t]*pub fn (\w+)\(\)",
)


class Harness:
    def __init__(self, name, module, doc, attrs, file):
        self.name = name
        self.module = module          # e.g. "c08" or "autogen::c08_gen"
        self.file = file
        self.full = module + "::" + name
        self.prop = "C" + name[1:3] if re.match(r"c\d\d_", name) else None
        tags = {}
        text = []
        for line in doc.splitlines():
            line = line.strip()[3:].strip()
            m = re.findall(r"@(\w+)((?:\s+[^@]+)?)", line)
            if m:
                for k, v in m:
                    tags.setdefault(k, []).append(v.strip())
            elif line:
                text.append(line)
        self.tags = tags
        self.doc = " ".join(text)
        self.tier = (tags.get("tier") or ["quick"])[0]
        self.timeout = int((tags.get("timeout") or ["300"])[0])
        # expected outcome: "pass" (default) or "fail" (vacuity twin / known-finding witness)
        self.expect = (tags.get("expect") or ["pass"])[0]
        self.known = (tags.get("known") or [None])[0]   # known-finding id this witness demonstrates
        # further properties this instance also decides (e.g. tokenizer totality for C02)
        self.also = [p_.strip() for v in tags.get("also", []) for p_ in v.replace(",", " ").split() if p_.strip()]
        self.bounds = "; ".join(tags.get("bounds", []))
        self.encodes = [e for v in tags.get("encodes", []) for e in v.split(",") if e.strip()]
        self.stubs = re.findall(r"kani::stub\(([^,]+),", attrs)
        unwind = re.findall(r"kani::unwind\((\d+)\)", attrs)
        self.unwind = int(unwind[0]) if unwind else None

    def describe(self):
        d = {"harness": self.name, "bounds": self.bounds or "all values of the symbolic inputs"}
        if self.unwind is not None:
            d["unwind"] = self.unwind
        if self.stubs:
            d["stubs"] = [s.strip() for s in self.stubs]
        return d


def discover():
    """all tagged harnesses in kani/src (hand written and generated)"""
    out = []
    src = os.path.join(KANI_DIR, "src")
    for root, _dirs, files in os.walk(src):
        for fn in sorted(files):
            if not fn.endswith(".rs"):
                continue
            path = os.path.join(root, fn)
            rel = os.path.relpath(path, src)[:-3]
            if rel in ("lib", "nd", "stubs") or rel.startswith("bin"):
                continue
            module = rel.replace(os.sep, "::")
            if module.endswith("::mod"):
                continue
            text = open(path).read()
            for m in HARNESS_RE.finditer(text):
                out.append(Harness(m.group(3), module, m.group(1), m.group(2), path))
    names = [h.name for h in out]
    dup = {n for n in names if names.count(n) > 1}
    if dup:
        raise SystemExit("duplicate harness names: %s" % sorted(dup))
    return out


def write_if_changed(path, content):
    old = None
    if os.path.exists(path):
        old = open(path).read()
    if old != content:
        os.makedirs(os.path.dirname(path), exist_ok=True)
        with open(path, "w") as f:
            f.write(content)
        return True
    return False


def write_registry(harnesses):
    lines = ["// generated by /verif/check — name -> harness function (native replay)",
             "pub const HARNESSES: &[(&str, fn())] = &["]
    for h in harnesses:
        lines.append('    ("%s", crate::%s),' % (h.name, h.full))
    lines.append("];")
    write_if_changed(os.path.join(KANI_DIR, "src", "autogen", "registry.rs"), "\n".join(lines) + "\n")


# --------------------------------------------------------------------------------------
# kani
# --------------------------------------------------------------------------------------
def kani_base(extra_cfg=()):
    cmd = ["cargo", "kani", "-Z", "stubbing", "-Z", "unstable-options", "-Z", "restrict-vtable",
           "--target-dir", KANI_TARGET]
    return cmd


def _ulimit_wrap(cmd):
    # ulimit -v applies to every child (rustc needs a lot of address space, so the limit is
    # only a guard against a runaway CBMC)
    return ["bash", "-c", "ulimit -v %d; exec \"$@\"" % MEM_KB, "bash"] + cmd


def kani_batch(harnesses, jobs, tag, rustflags_cfg=(), total_timeout=None):
    """Run a set of harnesses in one cargo-kani invocation; returns dict name -> result"""
    if not harnesses:
        return {}
    os.makedirs(LOGS, exist_ok=True)
    jpath = os.path.join(LOGS, "%s.json" % tag)
    if os.path.exists(jpath):
        os.unlink(jpath)
    per = max(h.timeout for h in harnesses)
    cmd = kani_base() + ["--exact", "-j", str(jobs), "--output-format", "terse",
                         "--harness-timeout", "%ds" % per, "--export-json", jpath]
    for h in harnesses:
        cmd += ["--harness", h.full]
    env = dict(ENV)
    if rustflags_cfg:
        env["RUSTFLAGS"] = " ".join("--cfg %s" % c for c in rustflags_cfg)
    waves = (len(harnesses) + jobs - 1) // jobs
    budget = total_timeout or (600 + per * waves + 120)
    start = time.time()
    rc, out = sh(_ulimit_wrap(cmd), cwd=KANI_DIR, timeout=budget, env=env,
                 log=os.path.join(LOGS, "%s.log" % tag))
    wall = time.time() - start
    results = {h.name: {"status": "inconclusive", "reason": "no result reported", "checks_total": 0,
                        "checks_failed": 0, "failed": [], "covers_sat": 0, "covers_unsat": 0,
                        "solver_s": 0.0, "symex_s": 0.0, "wall_s": 0.0, "vccs": 0}
               for h in harnesses}
    if "error: could not compile" in out or "error[E" in out or "Failed to execute cargo" in out:
        msg = "\n".join(l for l in out.splitlines() if not NOISE.search(l))[-3000:]
        for r in results.values():
            r["reason"] = "compilation failed"
        return {"__error__": "kani compilation failed:\n" + msg, **results}
    data = None
    if os.path.exists(jpath):
        try:
            data = json.load(open(jpath))
        except Exception as e:  # truncated file
            data = None
    by_full = {h.full: h for h in harnesses}
    if data:
        stats = {c["harness_id"]: (c.get("cbmc_stats") or {}) for c in data.get("cbmc", [])}
        props = {p["harness_id"]: (p.get("property_details") or {}) for p in data.get("property_details", [])}
        errs = {e["harness_id"]: e for e in data.get("error_details", [])}
        for res in data.get("verification_results", {}).get("results", []):
            h = by_full.get(res["harness_id"])
            if not h:
                continue
            r = results[h.name]
            pd = props.get(h.full) or {}
            st = stats.get(h.full) or {}
            r["wall_s"] = _f(res.get("duration_ms")) / 1000.0
            r["solver_s"] = _f(st.get("runtime_solver_s"))
            r["symex_s"] = _f(st.get("runtime_symex_s"))
            r["vccs"] = _i(st.get("vccs_generated"))
            r["checks_total"] = _i(pd.get("total_properties")) - _i(pd.get("satisfied")) - _i(pd.get("unsatisfiable"))
            r["checks_failed"] = _i(pd.get("failed"))
            r["undetermined"] = _i(pd.get("undetermined")) + _i(pd.get("solver_error"))
            r["covers_sat"] = _i(pd.get("satisfied"))
            r["covers_unsat"] = _i(pd.get("unsatisfiable"))
            failed = []
            for c in res.get("checks", []):
                if c.get("status") == "Failure":
                    loc = c.get("location", {})
                    failed.append({"description": c.get("description"), "function": c.get("function"),
                                   "file": loc.get("file"), "line": loc.get("line"),
                                   "category": c.get("category")})
            r["failed"] = failed
            status = res.get("status")
            err = errs.get(h.full, {})
            if status == "Success" and r["checks_failed"] == 0 and not r["undetermined"]:
                r["status"] = "success"
                r["reason"] = ""
            elif status == "Failure" and r["checks_failed"] > 0:
                r["status"] = "failure"
                r["reason"] = ""
            else:
                r["status"] = "inconclusive"
                r["reason"] = "kani status=%s error=%s exit=%s" % (
                    status, err.get("error_type"), err.get("exit_status"))
    else:
        # fall back to the terse text (e.g. driver was killed): only positive facts are used
        cur = {}
        for line in out.splitlines():
            m = re.match(r"Thread (\d+): Checking harness (\S+?)\.\.\.", line)
            if m:
                cur[m.group(1)] = m.group(2)
    # unwinding assertion failures are "the bound is too small", never a property verdict
    for r in results.values():
        if r["status"] == "failure" and r["failed"] and all(
                "unwinding assertion" in (f["description"] or "") for f in r["failed"]):
            r["status"] = "inconclusive"
            r["reason"] = "unwinding bound too small"
    if rc == -9:
        for r in results.values():
            if r["status"] == "inconclusive" and r["reason"] == "no result reported":
                r["reason"] = "driver timeout"
    results["__wall__"] = wall
    return results


PLAYBACK_RE = re.compile(
    r"/// Check for `([^`]*)`: ([^\n]*)\n(?:///[^\n]*\n|\s*\n)*#\[test\]\nfn (\w+)\(\) \{\n\s*let concrete_vals: Vec<Vec<u8>> = vec!\[(.*?)\n\s*\];",
    re.S,
)


def kani_counterexamples(h, rustflags_cfg=(), timeout=None):
    """Re-run one failing harness with concrete playback; returns list of
    {check, description, values:[[bytes]...]} for failed (non-cover) checks"""
    cmd = kani_base() + ["-Z", "concrete-playback", "--concrete-playback=print",
                         "--exact", "--harness", h.full, "--output-format", "terse"]
    env = dict(ENV)
    if rustflags_cfg:
        env["RUSTFLAGS"] = " ".join("--cfg %s" % c for c in rustflags_cfg)
    rc, out = sh(_ulimit_wrap(cmd), cwd=KANI_DIR, timeout=timeout or (h.timeout * 3 + 300), env=env,
                 log=os.path.join(LOGS, "playback_%s.log" % h.name))
    cex = []
    covers = []
    for m in PLAYBACK_RE.finditer(out):
        kind, desc, _fn, body = m.groups()
        values = []
        for vm in re.finditer(r"vec!\[([0-9, ]*)\]", body):
            values.append([int(x) for x in vm.group(1).split(",") if x.strip()])
        item = {"check": kind, "description": desc.strip().strip('"'), "values": values}
        (covers if kind == "cover" else cex).append(item)
    # Kani sometimes prints a playback test only for the cover properties; any input that makes
    # the natively replayed harness fail is a genuine failure, so those are tried as well
    return cex + covers


def build_native():
    """build the replay binary (dev + release) from the same sources"""
    outs = []
    for prof in ("dev", "release"):
        cmd = ["cargo", "build", "--offline", "--target-dir", NATIVE_TARGET, "--bin", "replay"]
        if prof == "release":
            cmd.append("--release")
        rc, out = sh(cmd, cwd=KANI_DIR, timeout=1200, log=os.path.join(LOGS, "native_%s.log" % prof))
        if rc != 0:
            raise SystemExit("native build (%s) failed:\n%s" % (prof, out[-3000:]))
        outs.append(out)
    return outs


def replay_native(name, values, profile="dev"):
    """returns (verdict, message): verdict in reproduced / not_reproduced / inconclusive"""
    exe = os.path.join(NATIVE_TARGET, "debug" if profile == "dev" else "release", "replay")
    vpath = os.path.join(LOGS, "values_%s.txt" % name)
    with open(vpath, "w") as f:
        for v in values:
            f.write(",".join(str(b) for b in v) + "\n")
    rc, out = sh([exe, name, vpath], timeout=120)
    line = [l for l in out.splitlines() if l.startswith("REPLAY")]
    msg = line[-1] if line else out[-500:]
    panic = [l for l in out.splitlines() if "panicked at" in l]
    if panic:
        msg += " | " + panic[-1]
    if rc == 1:
        return "reproduced", msg
    if rc == 0:
        return "not_reproduced", msg
    if rc == -9:
        return "reproduced", "native replay did not terminate within 120 s"
    if rc < 0 or rc >= 128:
        return "reproduced", "native replay crashed (rc=%s): %s" % (rc, msg)
    return "inconclusive", msg
