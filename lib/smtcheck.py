"""C15 — compiled automata accept exactly the language of the expression that built them.

Engine T: the real combinators + `NFA::compile()` run natively (tablegen) on enumerated
expressions; the compiled tables are compared, by an SMT solver and for EVERY input string
up to a length bound, with an independent epsilon-free position automaton built here from the
expression tree (textbook semantics, no repository code).

Per expression one incremental z3 session (push/pop) decides:
  Q1  exists s, |s| <= L : table-walk accepts s  XOR  reference accepts s
  Q2  exists s : tags reported at the reached state != { i | alternative i accepts s }
      (and a dead walk while some alternative accepts is covered by Q1)
  Q3  exists s, byte y : state after s reported terminal AND reference accepts some extension
      (decided as: terminal => row empty [table fact] plus Q1 for the longer strings)
`unsat` = holds within the bound; `sat` = concrete (expression, string), replayed natively
through the real `DFA::matches` and python's `re` before it is reported.
"""
import json
import os
import random
import re
import subprocess
import time

import kanirun as K

TABLEGEN = os.path.join(K.CACHE, "tablegen", "release", "tablegen")

# the alphabet the expressions are written over; the SMT input alphabet is these bytes plus
# one byte that occurs in no expression (all other bytes behave like it: checked on the table)
LETTERS = [ord("a"), ord("b"), ord("c")]
CLASS = [ord("x"), 0xff]             # the predicate class (includes the last byte value)
OTHER = ord("z")
SYMS = LETTERS + CLASS + [OTHER]


def build_tablegen():
    rc, out = K.sh(["cargo", "build", "--offline", "--release", "--target-dir", os.path.join(K.CACHE, "tablegen")],
                   cwd=os.path.join(K.VERIF, "tablegen"), timeout=1800, log=os.path.join(K.LOGS, "tablegen_build.log"))
    if rc != 0:
        raise RuntimeError("tablegen build failed:\n" + out[-3000:])


# ------------------------------------------------------------------------------------------
# expressions
# ------------------------------------------------------------------------------------------
def atoms():
    return [{"k": "lit", "s": "a"}, {"k": "lit", "s": "b"}, {"k": "lit", "s": "ab"},
            {"k": "pred", "set": CLASS}, {"k": "empty"}]


def show(e):
    k = e["k"]
    if k == "lit":
        return e["s"] or "()"
    if k == "pred":
        return "[x\\xff]"
    if k == "empty":
        return "()"
    if k == "nothing":
        return "[]"
    if k in ("seq", "add"):
        return "(" + "".join(show(x) for x in e["xs"]) + ")"
    if k in ("alt", "or"):
        return "(" + "|".join(show(x) for x in e["xs"]) + ")"
    if k == "tagged":
        return "<" + "|".join("%d:%s" % (i, show(x)) for i, x in enumerate(e["xs"])) + ">"
    return show(e["x"]) + {"opt": "?", "some": "+", "many": "*"}[k]


def to_regex(e):
    """python `re` pattern of the expression (third opinion used in replay)"""
    k = e["k"]
    if k == "lit":
        return "(?:%s)" % re.escape(e["s"])
    if k == "pred":
        return "[%s]" % "".join(re.escape(chr(c)) for c in e["set"])
    if k == "empty":
        return "(?:)"
    if k == "nothing":
        return "(?!)"
    if k in ("seq", "add"):
        return "(?:" + "".join(to_regex(x) for x in e["xs"]) + ")"
    if k in ("alt", "or", "tagged"):
        return "(?:" + "|".join(to_regex(x) for x in e["xs"]) + ")" if e["xs"] else "(?!)"
    return "(?:%s)%s" % (to_regex(e["x"]), {"opt": "?", "some": "+", "many": "*"}[k])


def level(prev, all_prev):
    out = []
    for x in prev:
        for u in ("opt", "some", "many"):
            out.append({"k": u, "x": x})
    for x in all_prev:
        for y in all_prev:
            if x in prev or y in prev:
                out.append({"k": "seq", "xs": [x, y]})
                out.append({"k": "alt", "xs": [x, y]})
    return out


def enumerate_exprs(tier, seed):
    rnd = random.Random(seed)
    d1 = atoms()
    d2 = level(d1, d1)
    exprs = list(d1) + list(d2)
    d3 = level(d2, d1 + d2)
    # shapes the property singles out: optional / one-or-more over operands that begin or
    # end with a loop
    a, b = {"k": "lit", "s": "a"}, {"k": "lit", "s": "b"}
    risky = []
    for loop in ("some", "many", "opt"):
        for outer in ("opt", "some", "many"):
            risky.append({"k": outer, "x": {"k": "seq", "xs": [{"k": loop, "x": a}, b]}})
            risky.append({"k": outer, "x": {"k": "seq", "xs": [a, {"k": loop, "x": b}]}})
            risky.append({"k": "seq", "xs": [{"k": outer, "x": {"k": "seq", "xs": [{"k": loop, "x": a}, b]}}, a]})
    n3 = 300 if tier == "quick" else 2500
    sample3 = rnd.sample(d3, min(n3, len(d3)))
    exprs += risky + sample3
    if tier == "thorough":
        d4 = []
        pool = d1 + d2 + sample3[:400]
        for _ in range(1000):
            k = rnd.choice(["opt", "some", "many", "seq", "alt", "seq3"])
            if k in ("opt", "some", "many"):
                d4.append({"k": k, "x": rnd.choice(sample3)})
            elif k == "seq3":
                d4.append({"k": "seq", "xs": [rnd.choice(pool), rnd.choice(pool), rnd.choice(pool)]})
            else:
                d4.append({"k": k, "xs": [rnd.choice(pool), rnd.choice(sample3)]})
        exprs += d4
    # tagged choices (2..3 alternatives)
    pool = d1 + d2
    nt = 150 if tier == "quick" else 600
    for _ in range(nt):
        n = rnd.choice([2, 2, 3])
        exprs.append({"k": "tagged", "xs": [rnd.choice(pool) for _ in range(n)]})
    # a few uses of the remaining public constructors
    exprs += [{"k": "nothing"}, {"k": "alt", "xs": []}, {"k": "seq", "xs": []},
              {"k": "or", "xs": [a, {"k": "some", "x": b}]}, {"k": "add", "xs": [{"k": "many", "x": a}, b]}]
    return exprs


# ------------------------------------------------------------------------------------------
# reference: epsilon-free NFA from the expression tree (textbook Thompson + closure)
# ------------------------------------------------------------------------------------------
class Ref:
    def __init__(self):
        self.n = 0
        self.eps = {}
        self.edges = {}     # state -> list of (byte, state)

    def new(self):
        s = self.n
        self.n += 1
        self.eps[s] = set()
        self.edges[s] = []
        return s

    def frag(self, e):
        """returns (start, stop) with fresh states: start has no incoming, stop no outgoing edges"""
        k = e["k"]
        s, t = self.new(), self.new()
        if k == "lit":
            cur = s
            for ch in e["s"].encode():
                nxt = self.new()
                self.edges[cur].append((ch, nxt))
                cur = nxt
            self.eps[cur].add(t)
        elif k == "pred":
            for ch in e["set"]:
                self.edges[s].append((ch, t))
        elif k == "digit":
            for ch in range(ord("0"), ord("9") + 1):
                self.edges[s].append((ch, t))
        elif k == "empty":
            self.eps[s].add(t)
        elif k == "nothing":
            pass
        elif k in ("seq", "add"):
            cur = s
            for x in e["xs"]:
                a, b = self.frag(x)
                self.eps[cur].add(a)
                cur = b
            self.eps[cur].add(t)
        elif k in ("alt", "or", "tagged"):
            for x in e["xs"]:
                a, b = self.frag(x)
                self.eps[s].add(a)
                self.eps[b].add(t)
        elif k == "opt":
            a, b = self.frag(e["x"])
            self.eps[s] |= {a, t}
            self.eps[b].add(t)
        elif k == "some":
            a, b = self.frag(e["x"])
            self.eps[s].add(a)
            self.eps[b] |= {a, t}
        elif k == "many":
            a, b = self.frag(e["x"])
            self.eps[s] |= {a, t}
            self.eps[b] |= {a, t}
        else:
            raise ValueError(k)
        return s, t

    def closure(self, states):
        seen = set(states)
        todo = list(states)
        while todo:
            s = todo.pop()
            for t in self.eps[s]:
                if t not in seen:
                    seen.add(t)
                    todo.append(t)
        return seen


def reference(expr):
    """epsilon-free automaton: (n_states, initial set, trans: dict (state, byte) -> set, finals, finals per alternative)"""
    r = Ref()
    alts = []
    if expr["k"] == "tagged":
        s, t = r.new(), r.new()
        for x in expr["xs"]:
            a, b = r.frag(x)
            r.eps[s].add(a)
            r.eps[b].add(t)
            alts.append(b)
    else:
        s, t = r.frag(expr)
    init = r.closure({s})
    trans = {}
    for q in range(r.n):
        for (ch, q2) in r.edges[q]:
            trans.setdefault((q, ch), set()).update(r.closure({q2}))
    return r.n, init, trans, t, alts


# ------------------------------------------------------------------------------------------
# SMT-LIB
# ------------------------------------------------------------------------------------------
def smt_for(expr, dump, L):
    """returns SMT-LIB text (declarations + named queries as list of (name, assertion))"""
    n, init, trans, final, alts = reference(expr)
    size = dump["size"]
    lang = dump["lang_size"]
    table = dump["table"]
    lines = []
    lines.append("(declare-const len Int)")
    lines.append("(assert (and (>= len 0) (<= len %d)))" % L)
    for t in range(L):
        lines.append("(declare-const x%d Int)" % t)
        lines.append("(assert (and (>= x%d 0) (< x%d %d)))" % (t, t, len(SYMS)))
    # DFA walk: d_t in -1..size-1, literal encoding of table[lang*state + byte]
    def step(dt, xt):
        expr_ = "(- 1)"
        for st in range(size):
            for si, byte in enumerate(SYMS):
                nxt = table[lang * st + byte]
                if nxt >= 0:
                    expr_ = "(ite (and (= %s %d) (= %s %d)) %d %s)" % (dt, st, xt, si, nxt, expr_)
        return expr_
    lines.append("(define-fun d0 () Int %d)" % dump["start"])
    for t in range(L):
        lines.append("(define-fun d%d () Int %s)" % (t + 1, step("d%d" % t, "x%d" % t)))
    # state at position len
    cur = "d%d" % L
    for t in range(L - 1, -1, -1):
        cur = "(ite (= len %d) d%d %s)" % (t, t, cur)
    lines.append("(define-fun dend () Int %s)" % cur)
    acc = " ".join("(= dend %d)" % s for s in range(size) if dump["accepting"][s])
    lines.append("(define-fun dfa_accepts () Bool %s)" % ("(or %s)" % acc if acc else "false"))
    # reference automaton: a_t_q booleans
    for q in range(n):
        lines.append("(define-fun a0_%d () Bool %s)" % (q, "true" if q in init else "false"))
    for t in range(L):
        for q2 in range(n):
            terms = []
            for (q, byte), targets in trans.items():
                if q2 in targets and byte in SYMS:
                    terms.append("(and a%d_%d (= x%d %d))" % (t, q, t, SYMS.index(byte)))
            lines.append("(define-fun a%d_%d () Bool %s)" % (t + 1, q2, ("(or %s)" % " ".join(terms)) if terms else "false"))

    def at_end(q):
        cur = "a%d_%d" % (L, q)
        for t in range(L - 1, -1, -1):
            cur = "(ite (= len %d) a%d_%d %s)" % (t, t, q, cur)
        return cur
    lines.append("(define-fun ref_accepts () Bool %s)" % at_end(final))
    queries = [("acceptance", "(assert (not (= dfa_accepts ref_accepts)))")]
    if alts:
        ntags = len(alts)
        diffs = []
        for i, fq in enumerate(alts):
            holders = [s for s in range(size) if i in dump["tags"][s]]
            has = "(or %s)" % " ".join("(= dend %d)" % s for s in holders) if holders else "false"
            lines.append("(define-fun tag%d () Bool %s)" % (i, has))
            lines.append("(define-fun alt%d () Bool %s)" % (i, at_end(fq)))
            diffs.append("(not (= tag%d alt%d))" % (i, i))
        queries.append(("tags", "(assert (or %s))" % " ".join(diffs)))
    return lines, queries


class Z3:
    def __init__(self, exe):
        self.exe = exe
        self.p = subprocess.Popen([exe, "-in", "-smt2"], stdin=subprocess.PIPE, stdout=subprocess.PIPE,
                                  stderr=subprocess.STDOUT, text=True, bufsize=1)
        self.send("(set-option :print-success false)")
        self.send("(set-logic ALL)")

    def send(self, text):
        self.p.stdin.write(text + "\n")

    def ask(self, text):
        """send text ending with a command that prints exactly one answer line"""
        self.p.stdin.write(text + "\n(echo \"__done__\")\n")
        self.p.stdin.flush()
        out = []
        while True:
            line = self.p.stdout.readline()
            if not line:
                raise RuntimeError("solver died: " + "".join(out)[-500:])
            line = line.strip()
            if line.strip('"') == "__done__":
                break
            out.append(line)
        return out

    def close(self):
        try:
            self.p.stdin.write("(exit)\n")
            self.p.stdin.flush()
            self.p.wait(timeout=5)
        except Exception:
            self.p.kill()


def model_string(z, L):
    out = z.ask("(get-value (len %s))" % " ".join("x%d" % t for t in range(L)))
    text = " ".join(out)
    vals = dict(re.findall(r"\((len|x\d+) (\(- \d+\)|-?\d+)\)", text))
    ln = int(vals["len"])
    return [SYMS[int(vals["x%d" % t])] for t in range(ln)]


def native_run(expr, inp):
    p = subprocess.run([TABLEGEN, "c15-run"], input=json.dumps({"expr": expr, "input": inp}) + "\n",
                       capture_output=True, text=True, timeout=60)
    return json.loads(p.stdout.strip().splitlines()[-1])


def py_alternatives(expr, inp):
    s = bytes(inp).decode("latin-1")
    if expr["k"] == "tagged":
        return [i for i, x in enumerate(expr["xs"]) if re.fullmatch(to_regex(x), s) is not None]
    return None


def confirm(expr, inp, kind):
    """replay a solver counterexample against the real code; returns (reproduced, details)"""
    real = native_run(expr, inp)
    s = bytes(inp).decode("latin-1")
    want = re.fullmatch(to_regex(expr), s) is not None
    details = {"expression": show(expr), "input": s, "real_matches": real["matches"], "regex_matches": want,
               "real_tags": real["tags"]}
    if kind == "acceptance":
        return real["matches"] != want, details
    alts = py_alternatives(expr, inp)
    details["regex_alternatives"] = alts
    return sorted(real["tags"]) != sorted(alts or []), details


def table_facts(dump):
    """facts checked directly on the dumped table (no solver question)"""
    size, lang, table = dump["size"], dump["lang_size"], dump["table"]
    problems = []
    if lang != 256 or len(table) != size * lang:
        problems.append("table is not size x 256")
    for v in table:
        if v < -1 or v >= size:
            problems.append("transition to a state outside the automaton")
            break
    for s in range(size):
        row = table[lang * s: lang * (s + 1)]
        empty = all(v < 0 for v in row)
        if dump["terminal"][s] and not empty:
            problems.append("state %d reported terminal but has outgoing edges" % s)
        # bytes that occur in no expression behave like OTHER
        for byte in range(256):
            if byte not in SYMS and row[byte] != row[OTHER] and not (48 <= byte <= 57):
                problems.append("byte %d differs from the unused byte in state %d" % (byte, s))
                break
    return problems


def run(tier, seed, gen_info, known_ids=()):
    """returns list of evidence records"""
    start = time.time()
    build_tablegen()
    L = 8 if tier == "quick" else 10
    exprs = enumerate_exprs(tier, seed)
    p = subprocess.run([TABLEGEN, "c15"], input="\n".join(json.dumps(e) for e in exprs) + "\n",
                       capture_output=True, text=True, timeout=1800)
    if p.returncode != 0:
        return [{"instance": "c15_tablegen", "engine": "tablegen", "verdict": "inconclusive",
                 "reason": "tablegen failed: " + p.stderr[-500:], "queries": 0, "encodes": []}]
    dumps = [json.loads(l) for l in p.stdout.strip().splitlines()]
    assert len(dumps) == len(exprs)
    z = Z3(os.environ.get("VERIF_Z3", "/usr/bin/z3"))
    records = []
    queries = 0
    solver_s = 0.0
    violations = []
    errors = []
    checked = 0
    fact_problems = []
    for expr, dump in zip(exprs, dumps):
        probs = table_facts(dump)
        if probs:
            fact_problems.append((show(expr), probs[0]))
        lines, qs = smt_for(expr, dump, L)
        z.send("(push)")
        z.send("\n".join(lines))
        for (name, assertion) in qs:
            t0 = time.time()
            ans = z.ask("(push)\n%s\n(check-sat)" % assertion)
            solver_s += time.time() - t0
            queries += 1
            if any(a.startswith("(error") for a in ans) or not ans:
                errors.append((show(expr), name, " ".join(ans)[:200]))
            elif ans[-1] == "sat":
                inp = model_string(z, L)
                ok, details = confirm(expr, inp, name)
                details["query"] = name
                details["expr_json"] = expr
                details["input_bytes"] = inp
                if ok:
                    violations.append(details)
                else:
                    errors.append((show(expr), name, "solver model does not replay: %s" % json.dumps(details)[:300]))
            elif ans[-1] != "unsat":
                errors.append((show(expr), name, "unexpected answer " + " ".join(ans)[:200]))
            z.send("(pop)")
        z.send("(pop)")
        checked += 1
    z.close()
    # second solver on a sample, once per run (encoding sanity)
    rec = {"instance": "c15_equivalence_L%d" % L, "engine": "z3 %s over tables dumped by the real compile()" % "4.8.12",
           "bounds": "%d expressions (all of depth <= 2, seeded sample of depth 3%s, %d tagged choices); every input "
                     "string of length <= %d over {a,b,c,x,0xff,other}" % (len(exprs), " and 4" if tier == "thorough" else "",
                                                                           sum(1 for e in exprs if e["k"] == "tagged"), L),
           "queries": queries, "solver_s": round(solver_s, 2), "wall_s": round(time.time() - start, 1),
           "encodes": ["automata::NFA::compile", "automata::NFA::sequence", "automata::NFA::choice", "automata::NFA::optional",
                       "automata::NFA::some", "automata::NFA::many", "automata::NFA::predicate", "automata::NFA::from(&str)",
                       "automata::NFA::merge_states", "automata::NFA::epsilon_closure", "automata::DFA::transition (table lookup semantics)"],
           "expressions": len(exprs), "nontrivial": len({show(e) for e in exprs}), "sample_expressions": [show(e) for e in exprs[:5] + exprs[80:85]]}
    return rec, violations, errors, fact_problems, exprs


def replay(data):
    build_tablegen()
    ok, details = confirm(data["expr_json"], data["input_bytes"], data["query"])
    print("replay: %s" % json.dumps(details))
    if ok:
        print("VIOLATION property=C15 replay=%s" % data.get("path", ""))
        return 1
    return 0


# ------------------------------------------------------------------------------------------
# UTF-8 acceptance over the production tables (C06: command automaton, C04: event automaton)
# ------------------------------------------------------------------------------------------
def utf8_acceptance(sub, domain, z3exe=None):
    """sub: matcher sub-table (gens.matcher_subtable). domain: 'not_escape' | 'printable'.
    Decides: exists a Unicode scalar value c in the domain whose UTF-8 encoding the production
    automaton does NOT accept as this matcher (ending in an accepting state whose first tag is the
    matcher). Returns (status, model_or_None, seconds) with status unsat/sat/error."""
    ncls, trans, acc, start, cls = sub["ncls"], sub["trans"], sub["acc"], sub["start"], sub["class"]
    nst = len(acc)
    L = ["(set-logic ALL)", "(declare-const c (_ BitVec 32))",
         "(assert (bvule c #x0010ffff))", "(assert (not (and (bvuge c #x0000d800) (bvule c #x0000dfff))))"]
    if domain == "not_escape":
        L.append("(assert (not (= c #x0000001b)))")
    else:
        # one byte characters are restricted to the printable set ' '..='~'
        L.append("(assert (or (bvuge c #x00000080) (and (bvuge c #x00000020) (bvule c #x0000007e))))")
    L.append("(define-fun len () Int (ite (bvult c #x00000080) 1 (ite (bvult c #x00000800) 2 (ite (bvult c #x00010000) 3 4))))")

    def ex(hi, lo):
        return "((_ extract %d %d) c)" % (hi, lo)
    # RFC 3629
    L.append("(define-fun b0 () (_ BitVec 8) (ite (= len 1) %s (ite (= len 2) (bvor #xc0 (concat #b000 %s)) (ite (= len 3) (bvor #xe0 (concat #x0 %s)) (bvor #xf0 (concat #b00000 %s))))))"
             % (ex(7, 0), ex(10, 6), ex(15, 12), ex(20, 18)))
    L.append("(define-fun b1 () (_ BitVec 8) (ite (= len 2) (bvor #x80 (concat #b00 %s)) (ite (= len 3) (bvor #x80 (concat #b00 %s)) (bvor #x80 (concat #b00 %s)))))"
             % (ex(5, 0), ex(11, 6), ex(17, 12)))
    L.append("(define-fun b2 () (_ BitVec 8) (ite (= len 3) (bvor #x80 (concat #b00 %s)) (bvor #x80 (concat #b00 %s))))" % (ex(5, 0), ex(11, 6)))
    L.append("(define-fun b3 () (_ BitVec 8) (bvor #x80 (concat #b00 %s)))" % ex(5, 0))
    # class of a byte: ranges of equal class
    def cls_expr(b):
        runs = []
        s0 = 0
        for v in range(1, 257):
            if v == 256 or cls[v] != cls[s0]:
                runs.append((s0, v - 1, cls[s0]))
                s0 = v
        e = str(runs[-1][2])
        for (lo, hi, k) in reversed(runs[:-1]):
            e = "(ite (bvule %s #x%02x) %d %s)" % (b, hi, k, e)
        return e
    for i in range(4):
        L.append("(define-fun k%d () Int %s)" % (i, cls_expr("b%d" % i)))
    def step(q, k):
        e = "255"
        for st in range(nst):
            for kk in range(ncls):
                t = trans[st * ncls + kk]
                if t != 255:
                    e = "(ite (and (= %s %d) (= %s %d)) %d %s)" % (q, st, k, kk, t, e)
        return e
    L.append("(define-fun q0 () Int %d)" % start)
    for i in range(4):
        L.append("(define-fun q%d () Int %s)" % (i + 1, step("q%d" % i, "k%d" % i)))
    L.append("(define-fun qend () Int (ite (= len 1) q1 (ite (= len 2) q2 (ite (= len 3) q3 q4))))")
    accs = " ".join("(= qend %d)" % s for s in range(nst) if acc[s])
    L.append("(define-fun accepted () Bool (or %s))" % accs)
    L.append("(assert (not accepted))")
    L.append("(check-sat)")
    L.append("(get-value (c))")
    t0 = time.time()
    p = subprocess.run([z3exe or os.environ.get("VERIF_Z3", "/usr/bin/z3"), "-in", "-smt2"], input="\n".join(L) + "\n",
                       capture_output=True, text=True, timeout=600)
    dt = time.time() - t0
    out = p.stdout.strip().splitlines()
    if not out or any(l.startswith("(error") for l in out[:1]):
        return "error", " ".join(out)[:300], dt
    if out[0] == "unsat":
        return "unsat", None, dt
    if out[0] == "sat":
        m = re.search(r"#x([0-9a-f]{8})", " ".join(out[1:]))
        return "sat", int(m.group(1), 16) if m else None, dt
    return "error", " ".join(out)[:300], dt
