//! C10 — view layout honours constraints and never panics (layout arithmetic).
//!
//! The real generic layout code (`Align::align`, `BoxConstraint::clamp`, `Container::layout`,
//! `flex_layout`) runs over statically typed probe children that behave as the `View` contract
//! demands (they report `ct.clamp(any size)`), for all constraints with `min <= max`.
use crate::nd::{any, assume};
use surf_n_term::view::flex::flex_layout;
use surf_n_term::view::{
    Align, Axis, BoxConstraint, Container, FlexChild, Justify, Layout, Margins, Tree, TreeMut, View, ViewContext,
    ViewLayout, ViewLayoutStore, ViewMutLayout,
};
use surf_n_term::{Error, Position, Size, TerminalSurface};

/// child view honouring the contract: reports its wish clamped to the constraint
pub struct Probe {
    pub h: usize,
    pub w: usize,
}

impl View for Probe {
    fn render(&self, _ctx: &ViewContext, _surf: TerminalSurface<'_>, _layout: ViewLayout<'_>) -> Result<(), Error> {
        Ok(())
    }
    fn layout(&self, _ctx: &ViewContext, ct: BoxConstraint, mut layout: ViewMutLayout<'_>) -> Result<(), Error> {
        *layout = Layout::new().with_size(ct.clamp(Size::new(self.h, self.w)));
        Ok(())
    }
}

pub fn any_align() -> Align {
    let k: u8 = any();
    assume(k < 6);
    match k {
        0 => Align::Start,
        1 => Align::Center,
        2 => Align::End,
        3 => Align::Expand,
        4 => Align::Shrink,
        _ => Align::Offset(any()),
    }
}

pub fn any_justify() -> Justify {
    let k: u8 = any();
    assume(k < 6);
    match k {
        0 => Justify::Start,
        1 => Justify::Center,
        2 => Justify::End,
        3 => Justify::SpaceBetween,
        4 => Justify::SpaceAround,
        _ => Justify::SpaceEvenly,
    }
}

/// constraint with `min <= max <= bound` on both axes
pub fn any_constraint(bound: usize) -> BoxConstraint {
    let (a, b, c, d): (usize, usize, usize, usize) = (any(), any(), any(), any());
    assume(a <= c && c <= bound && b <= d && d <= bound);
    BoxConstraint::new(Size::new(a, b), Size::new(c, d))
}

fn within(ct: &BoxConstraint, size: Size) -> bool {
    size.height >= ct.min().height && size.height <= ct.max().height && size.width >= ct.min().width
        && size.width <= ct.max().width
}

/// alignment of a child of `size` inside `space`
/// @bounds every alignment (any i32 offset), every usize size and space
/// @encodes view::container::Align::align
#[cfg_attr(kani, kani::proof)]
pub fn c10_align() {
    let align = any_align();
    let size: usize = any();
    let space: usize = any();
    let pos = align.align(size, space);
    let fit = if size < space { size } else { space };
    witness!(matches!(align, Align::Offset(o) if o < 0), "offset from the far edge");
    match align {
        Align::Offset(o) if o >= 0 => assert!(pos == o as usize, "C10: positive offset not honoured"),
        _ => assert!(pos + fit <= space, "C10: aligned child sticks out of the space it was aligned in"),
    }
    match align {
        Align::Start | Align::Expand | Align::Shrink => assert!(pos == 0),
        Align::End => assert!(pos + fit == space, "C10: end alignment leaves a gap"),
        Align::Center => assert!(pos == (space - fit) / 2, "C10: centre alignment off"),
        _ => {}
    }
}

/// @bounds every constraint with min <= max, every size
/// @encodes view::BoxConstraint::clamp, terminal::Size::clamp, view::Axis::constraint
#[cfg_attr(kani, kani::proof)]
pub fn c10_clamp() {
    let ct = any_constraint(usize::MAX);
    let size = Size::new(any(), any());
    let got = ct.clamp(size);
    witness!(got != size, "size changed by the constraint");
    assert!(within(&ct, got), "C10: clamped size outside the constraint");
    if within(&ct, size) {
        assert!(got == size, "C10: size inside the constraint changed");
    }
    let (lo, hi): (usize, usize) = (any(), any());
    assume(lo <= hi);
    let h = Axis::Horizontal.constraint(ct, lo, hi);
    assert!(h.min().width == lo && h.max().width == hi && h.min().height == ct.min().height && h.max().height == ct.max().height);
    let v = Axis::Vertical.constraint(ct, lo, hi);
    assert!(v.min().height == lo && v.max().height == hi && v.min().width == ct.min().width && v.max().width == ct.max().width);
}

/// container around a probe child
pub fn container_case(margin_bound: usize) {
    let ctx = ViewContext::dummy();
    let ct = any_constraint(64);
    let child = Probe { h: any(), w: any() };
    let margins = Margins { left: any(), right: any(), top: any(), bottom: any() };
    assume(margins.left <= margin_bound && margins.right <= margin_bound && margins.top <= margin_bound
           && margins.bottom <= margin_bound);
    let size = Size::new(any(), any());
    let container = Container::new(child)
        .with_size(size)
        .with_margins(margins)
        .with_vertical(any_align())
        .with_horizontal(any_align());
    let mut store = ViewLayoutStore::new();
    let layout = container.layout_new(&ctx, ct, &mut store);
    witness!(layout.is_ok(), "layout computed");
    match &layout {
        Ok(layout) => {
            assert!(within(&ct, layout.size()), "C10: container size outside the constraint");
            let mut children = 0;
            for child in layout.children() {
                children += 1;
                // the child is handed the space inside the margins
                assert!(child.position().row >= margins.top && child.position().col >= margins.left,
                        "C10: child placed inside the margin");
            }
            assert!(children == 1, "C10: container layout must record exactly its child");
        }
        Err(_) => assert!(false, "C10: container layout failed"),
    }
    std::mem::forget(layout);
    std::mem::forget(store);
    std::mem::forget(container);
}

/// @bounds constraint min <= max <= 64; any child wish, any container size, margins <= 2^32, any alignments
/// @encodes view::container::Container::layout, view::container::Align::align
#[cfg_attr(kani, kani::proof)]
#[cfg_attr(kani, kani::unwind(4))]
pub fn c10_container() {
    container_case(1 << 32)
}

/// @timeout 900
/// @bounds as c10_container with every usize margin (deserialised trees can carry any value)
/// @encodes view::container::Container::layout
#[cfg_attr(kani, kani::proof)]
#[cfg_attr(kani, kani::unwind(4))]
pub fn c10_container_any_margin() {
    container_case(usize::MAX)
}

/// flex with `N` probe children without flex factors
pub fn flex_case<const N: usize>() {
    let ctx = ViewContext::dummy();
    let ct = any_constraint(24);
    let direction = if any() { Axis::Horizontal } else { Axis::Vertical };
    let justify = any_justify();
    let mut wishes = [(0usize, 0usize); N];
    let children: [FlexChild<Probe>; N] = std::array::from_fn(|i| {
        let (h, w): (usize, usize) = (any(), any());
        assume(h <= 40 && w <= 40);
        wishes[i] = (h, w);
        FlexChild::new(Probe { h, w }).align(any_align())
    });
    let mut store = ViewLayoutStore::new();
    let mut layout = ViewMutLayout::new(&mut store, Layout::default());
    let res = flex_layout(direction, justify, &children[..], &ctx, ct, layout.view_mut());
    witness!(res.is_ok(), "layout computed");
    assert!(res.is_ok(), "C10: flex layout failed");
    assert!(within(&ct, layout.size()), "C10: flex size outside the constraint");
    // children are laid out in order along the major axis and do not overlap
    let mut count = 0;
    let mut edge = 0usize;
    for child in layout.children() {
        let (pos, size) = (child.position(), child.size());
        let (major_pos, major_size) = match direction {
            Axis::Horizontal => (pos.col, size.width),
            Axis::Vertical => (pos.row, size.height),
        };
        assert!(major_pos >= edge, "C10: flex children overlap along the major axis");
        edge = major_pos + major_size;
        // every child got a size within the loosened constraint
        assert!(size.height <= ct.max().height && size.width <= ct.max().width, "C10: flex child larger than the constraint");
        count += 1;
    }
    assert!(count == N, "C10: flex layout must record every child");
    std::mem::forget(res);
    std::mem::forget(store);
    std::mem::forget(children);
}
