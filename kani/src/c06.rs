//! C06 — the library reads back its own SGR output and applies it with SGR semantics.
//!
//! * `FaceModify::apply` against the reference SGR semantics (every face x every record).
//! * `sgr_face` (the library's reader, through the command matcher's payload decoder)
//!   against the reference SGR machine of `c05` on every parameter string up to a length.
//! * characters: `encode(Char(c))` is read back by the command decoder's UTF-8 payload
//!   decoder as `c`.
use crate::c05::{self, AnyModify, Cur, Seq, SgrState, Sink, NP};
use crate::nd::{any, assume};
use surf_n_term::decoder::verif_hooks::{command_matcher_decode, sgr_face};
use surf_n_term::encoder::ColorDepth;
use surf_n_term::{Face, FaceAttrs, FaceModify, RGBA, TerminalCommand, UnderlineStyle};

/// rendition of a face in the reference machine's terms
pub fn face_state(face: &Face) -> SgrState {
    let col = |c: Option<RGBA>| {
        c.map(|c| {
            use surf_n_term::Color;
            c.to_rgb()
        })
    };
    let mut st = SgrState::reset();
    st.fg = col(face.fg);
    st.bg = col(face.bg);
    st.underline = match face.attrs.underline() {
        UnderlineStyle::None => 0,
        UnderlineStyle::Straight => 1,
        UnderlineStyle::Double => 2,
        UnderlineStyle::Curly => 3,
        UnderlineStyle::Dotted => 4,
        UnderlineStyle::Dashed => 5,
    };
    st.bold = face.attrs.contains(FaceAttrs::BOLD);
    st.italic = face.attrs.contains(FaceAttrs::ITALIC);
    st.blink = face.attrs.contains(FaceAttrs::BLINK);
    st.reverse = face.attrs.contains(FaceAttrs::REVERSE);
    st.strike = face.attrs.contains(FaceAttrs::STRIKE);
    st
}

pub fn any_face() -> Face {
    let (fg, _) = c05::any_color();
    let (bg, _) = c05::any_color();
    let (attrs, _, _) = c05::any_attrs();
    Face::new(fg, bg, attrs)
}

/// faces have no underline colour: compare everything else
fn same_face_state(a: &SgrState, b: &SgrState) -> bool {
    a.fg == b.fg && a.bg == b.bg && a.underline == b.underline && a.bold == b.bold && a.italic == b.italic
        && a.blink == b.blink && a.reverse == b.reverse && a.strike == b.strike
}

/// `FaceModify::apply` = SGR semantics of the record
/// @bounds every face (fg/bg opaque or none, every valid attribute set) x every modification record
/// @encodes face::FaceModify::apply, face::FaceAttrs::insert, face::FaceAttrs::remove
#[cfg_attr(kani, kani::proof)]
#[cfg_attr(kani, kani::unwind(8))]
pub fn c06_apply() {
    let face = any_face();
    let a = c05::any_modify();
    let got = a.m.apply(face);
    let want = c05::modify_semantics(&a, face_state(&face));
    witness!(a.m.strike == Some(true) && a.ul == 0, "strike on, underline off");
    let got = face_state(&got);
    assert!(got.fg == want.fg && got.bg == want.bg, "C06: modification applied wrong colours");
    assert!(got.underline == want.underline, "C06: underline style not replaced/cleared as SGR demands");
    assert!(got.bold == want.bold, "C06: bold not set/cleared independently");
    assert!(got.italic == want.italic, "C06: italic not set/cleared independently");
    assert!(got.blink == want.blink, "C06: blink not set/cleared independently");
    assert!(got.strike == want.strike, "C06: strike not set/cleared independently");
    assert!(got.reverse == want.reverse, "C06: reverse changed by a record that cannot express it");
}

/// two modifications in a row: later ones override earlier ones, reset restores the default
/// @bounds every face x two arbitrary modification records
/// @encodes face::FaceModify::apply
#[cfg_attr(kani, kani::proof)]
#[cfg_attr(kani, kani::unwind(8))]
pub fn c06_apply_twice() {
    let face = any_face();
    let a = c05::any_modify();
    let b = c05::any_modify();
    let got = face_state(&b.m.apply(a.m.apply(face)));
    let want = c05::modify_semantics(&b, c05::modify_semantics(&a, face_state(&face)));
    witness!(b.m.reset, "second modification resets");
    assert!(same_face_state(&got, &want), "C06: sequence of modifications does not follow SGR semantics");
}

/// characters written by the encoder are read back by the command decoder's payload decoder
/// @bounds every Unicode scalar value except ESC
/// @encodes encoder::TTYEncoder::encode[Char], decoder::utf8_decode, decoder::UTF8Matcher::decode
#[cfg_attr(kani, kani::proof)]
#[cfg_attr(kani, kani::unwind(8))]
pub fn c06_char_roundtrip() {
    let c = c05::any_char();
    assume(c != '\x1b');
    let sink = c05::encode(c05::caps(ColorDepth::TrueColor, false), TerminalCommand::Char(c));
    assert!(sink.len >= 1 && sink.len <= 4);
    witness!(sink.len == 3, "three byte character");
    let got = command_matcher_decode(1, &sink.data[..sink.len]);
    match got {
        Some(TerminalCommand::Char(d)) => assert!(d == c, "C06: character read back differently"),
        _ => assert!(false, "C06: character not read back"),
    }
}

/// run the reference machine over raw SGR parameter bytes (`ESC [ data m`)
pub fn reference_params<const N: usize, const P: usize>(data: &[u8; N]) -> (Seq, bool) {
    let mut sink = Sink::new();
    sink.data[0] = 0x1b;
    sink.data[1] = b'[';
    let mut i = 0;
    while i < N {
        sink.data[2 + i] = data[i];
        i += 1;
    }
    sink.data[2 + N] = b'm';
    sink.len = N + 3;
    let mut cur = Cur::new(&sink);
    let s = cur.csi::<P, 4>();
    (s, cur.finished() && s.fin == b'm')
}

/// compare the library's reading of `ESC [ data m` with the reference machine, observed on
/// a fully set and on the default previous rendition
pub fn sgr_face_case<const N: usize, const P: usize>() {
    let data: [u8; N] = any();
    let mut i = 0;
    while i < N {
        let b = data[i];
        assume((b >= b'0' && b <= b'9') || b == b';' || b == b':');
        i += 1;
    }
    let (s, ok) = reference_params::<N, P>(&data);
    assume(ok);
    let from_dirty = c05::sgr_run_n::<P>(&s, c05::dirty_state());
    let from_clean = c05::sgr_run_n::<P>(&s, SgrState::reset());
    // parameters outside the machine (faint, conceal, fonts, incomplete colour selections),
    // palette selections and what a face cannot hold are not compared
    assume(!from_dirty.unknown && from_dirty.n_indexed == 0 && from_dirty.n_basic == 0);
    // the library's reading of the parameters (the matcher passes `data[2..len-1]` to `sgr_face`)
    let m = sgr_face(&data);
    witness!(N == 0 || from_dirty.bold != from_clean.bold || from_dirty.underline != from_clean.underline, "non-trivial parameters");
    let dirty_face = Face::new(
        Some(RGBA::new(1, 2, 3, 255)),
        Some(RGBA::new(4, 5, 6, 255)),
        FaceAttrs::UNDERLINE_CURLY | FaceAttrs::BOLD | FaceAttrs::ITALIC | FaceAttrs::BLINK | FaceAttrs::REVERSE
            | FaceAttrs::STRIKE,
    );
    let got_dirty = face_state(&m.apply(dirty_face));
    let got_clean = face_state(&m.apply(Face::default()));
    // reverse (7/27) is not expressible in a modification record: not compared
    let same = |a: &SgrState, b: &SgrState| {
        a.fg == b.fg && a.bg == b.bg && a.underline == b.underline && a.bold == b.bold && a.italic == b.italic
            && a.blink == b.blink && a.strike == b.strike
    };
    assert!(same(&got_dirty, &from_dirty), "C06: library reads the SGR differently from SGR semantics (set rendition)");
    assert!(same(&got_clean, &from_clean), "C06: library reads the SGR differently from SGR semantics (default rendition)");
}


/// decimal digits of a symbolic colour component at a concrete width
fn component<const D: usize>(out: &mut [u8; 3]) -> u32 {
    let mut v = 0u32;
    let mut i = 0;
    while i < D {
        let d: u8 = any();
        assume(d <= 9);
        out[i] = b'0' + d;
        v = v * 10 + d as u32;
        i += 1;
    }
    v
}

/// The colour selection the encoder emits in true colour, `38;2;R;G;B` FOLLOWED by further
/// parameters (`48;2;...`, `1`, ...): the library's reader must take exactly R, G, B and leave
/// the following parameters alone. The parameter groups are handed to the real `sgr_color`
/// as the `;`-separated slices `sgr_face` would pass (its `split` does not fit the solver).
/// @bounds every R, G, B of the given digit widths (values above 255 included), followed by the group `48`
/// @encodes decoder::sgr_color, decoder::number_decode
pub fn sgr_color_case<const DR: usize, const DG: usize, const DB: usize>() {
    let (mut r, mut g, mut b) = ([0u8; 3], [0u8; 3], [0u8; 3]);
    let (rv, gv, bv) = (component::<DR>(&mut r), component::<DG>(&mut g), component::<DB>(&mut b));
    let groups: [&[u8]; 6] = [b"2", &r[..DR], &g[..DG], &b[..DB], b"48", b"5"];
    let mut iter = groups.iter().copied();
    let got = surf_n_term::decoder::verif_hooks::sgr_color(&mut iter);
    witness!(rv >= 1 && gv <= 255, "non-black colour");
    let in_range = rv <= 255 && gv <= 255 && bv <= 255;
    let clamp = |v: u32| if v > 255 { 255 } else { v };
    use surf_n_term::Color;
    match got {
        Some(c) => {
            let rgb = c.to_rgb();
            // out of range components are clamped (or the selection rejected), never wrapped
            assert!(rgb[0] as u32 == clamp(rv) && rgb[1] as u32 == clamp(gv) && rgb[2] as u32 == clamp(bv),
                    "C06: `38;2;R;G;B` followed by more parameters is read as another colour");
        }
        None => assert!(!in_range, "C06: true colour selection not read back"),
    }
    assert!(iter.next() == Some(&b"48"[..]), "C06: colour selection swallowed the parameters that follow it");
}

/// expected record of a fixed parameter string, written by hand from ECMA-48 / xterm
fn expect_sgr(data: &[u8], want: FaceModify) {
    let got = sgr_face(data);
    assert!(got == want, "C06: library reads a fixed SGR string differently from SGR semantics");
}

fn rgb(r: u8, g: u8, b: u8) -> Option<RGBA> {
    Some(RGBA::new(r, g, b, 255))
}

/// FIXED parameter strings (no symbolic input: `sgr_face` splits on every byte and does not
/// fit the solver with symbolic separators). These are the forms the encoder emits plus the
/// reset / override corner cases; executed under CBMC with all checks on.
/// @bounds 22 fixed SGR parameter strings (concrete), listed in the source
/// @encodes decoder::sgr_face, decoder::sgr_color, decoder::number_decode
#[cfg_attr(kani, kani::proof)]
#[cfg_attr(kani, kani::unwind(24))]
pub fn c06_sgr_fixed_strings() {
    let none = FaceModify::default();
    let reset = FaceModify { reset: true, ..none };
    expect_sgr(b"", reset);
    expect_sgr(b"0", reset);
    expect_sgr(b"1", FaceModify { bold: Some(true), ..none });
    // a reset in the middle discards what came before it, later parameters still apply
    expect_sgr(b"1;0", reset);
    expect_sgr(b"1;", reset);
    expect_sgr(b"1;0;3", FaceModify { reset: true, italic: Some(true), ..none });
    expect_sgr(b"0;1", FaceModify { reset: true, bold: Some(true), ..none });
    // later parameters override earlier ones
    expect_sgr(b"3;23", FaceModify { italic: Some(false), ..none });
    expect_sgr(b"4;24", FaceModify { underline: Some(UnderlineStyle::None), ..none });
    expect_sgr(b"4:3", FaceModify { underline: Some(UnderlineStyle::Curly), ..none });
    expect_sgr(b"4", FaceModify { underline: Some(UnderlineStyle::Straight), ..none });
    expect_sgr(b"5;9", FaceModify { blink: Some(true), strike: Some(true), ..none });
    expect_sgr(b"25;29", FaceModify { blink: Some(false), strike: Some(false), ..none });
    // the encoder's true colour forms, alone and followed by further parameters
    expect_sgr(b"38;2;1;2;3", FaceModify { fg: rgb(1, 2, 3), ..none });
    expect_sgr(b"48;2;4;5;6", FaceModify { bg: rgb(4, 5, 6), ..none });
    expect_sgr(b"38;2;1;2;3;48;2;4;5;6", FaceModify { fg: rgb(1, 2, 3), bg: rgb(4, 5, 6), ..none });
    expect_sgr(b"0;38;2;255;0;9;1;9", FaceModify { reset: true, fg: rgb(255, 0, 9), bold: Some(true), strike: Some(true), ..none });
    expect_sgr(b"58;2;7;8;9;3", FaceModify { underline_color: rgb(7, 8, 9), italic: Some(true), ..none });
    // colon forms with and without the colour space slot
    expect_sgr(b"38:2:1:2:3", FaceModify { fg: rgb(1, 2, 3), ..none });
    expect_sgr(b"38:2::1:2:3", FaceModify { fg: rgb(1, 2, 3), ..none });
    // cube and grey ramp of the 256 colour palette (xterm)
    expect_sgr(b"38;5;16", FaceModify { fg: rgb(0, 0, 0), ..none });
    expect_sgr(b"48;5;231", FaceModify { bg: rgb(255, 255, 255), ..none });
    witness!(true, "end reached");
}
