//! C03 — decoded items do not depend on read boundaries and follow longest-match rules.
//!
//! Three layers, each decided by the solver:
//!  1. step refinement: one real `MatcherDecoder::decode_byte` from an arbitrary
//!     concrete-shape state over a FULLY SYMBOLIC small DFA equals `Model::step`;
//!  2. call refinement: one real `Decoder::decode(&mut &[u8])` equals the model's fold
//!     (rescheduled bytes first, stops at the first item, consumes exactly what it used);
//!  3. on the model: any split of the input yields the same items as the unsplit input, and
//!     the items are the leftmost-longest tokenisation (direct definition).
//! C02's "never panics / raw items non-empty / None only with the input consumed" are
//! asserted along the way.
use crate::nd::{any, assume};
use surf_n_term::decoder::verif_hooks::Tokenizer;

pub const MAXB: usize = 8;

/// symbolic DFA with `S` states over `L` symbols: `delta[s][a]` (>= S means dead), `acc[s]`
/// (tag of the item produced in the state, 255 = not accepting). State 0 is the start state.
#[derive(Clone, Copy)]
pub struct Dfa<const S: usize, const L: usize> {
    pub delta: [[u8; L]; S],
    pub acc: [u8; S],
}

impl<const S: usize, const L: usize> Dfa<S, L> {
    pub fn any() -> Self {
        let mut delta = [[0u8; L]; S];
        let mut acc = [0u8; S];
        let mut s = 0;
        while s < S {
            let mut a = 0;
            while a < L {
                let t: u8 = any();
                assume(t <= S as u8); // == S: dead transition
                delta[s][a] = t;
                a += 1;
            }
            let tag: u8 = any();
            assume(tag == 255 || tag == s as u8 + 10);
            acc[s] = tag;
            s += 1;
        }
        Dfa { delta, acc }
    }
    pub fn next(&self, q: usize, a: u8) -> Option<usize> {
        let t = self.delta[q][a as usize] as usize;
        if t < S { Some(t) } else { None }
    }
    pub fn accepting(&self, q: usize) -> bool {
        self.acc[q] != 255
    }
    /// as `NFA::compile` derives it: no outgoing edge
    pub fn terminal(&self, q: usize) -> bool {
        let mut all_dead = true;
        let mut a = 0;
        while a < L {
            if (self.delta[q][a] as usize) < S {
                all_dead = false;
            }
            a += 1;
        }
        all_dead
    }
    /// the real tokenizer over this table
    pub fn tokenizer(&self) -> Tokenizer<u8> {
        let mut table = Vec::with_capacity(S * L);
        let mut accept = Vec::with_capacity(S);
        let mut s = 0;
        while s < S {
            let mut a = 0;
            while a < L {
                table.push(self.next(s, a as u8));
                a += 1;
            }
            accept.push(if self.acc[s] == 255 { None } else { Some(self.acc[s]) });
            s += 1;
        }
        Tokenizer::from_raw(L, table, accept)
    }
}

#[derive(Clone, Copy)]
pub struct Bytes {
    pub d: [u8; MAXB],
    pub n: usize,
}

/// equality of the first `n` bytes (bytes beyond `n` are stale)
impl PartialEq for Bytes {
    fn eq(&self, other: &Self) -> bool {
        if self.n != other.n {
            return false;
        }
        let mut same = true;
        let mut i = 0;
        while i < MAXB {
            if i < self.n && self.d[i] != other.d[i] {
                same = false;
            }
            i += 1;
        }
        same
    }
}

impl Eq for Bytes {}

impl Bytes {
    pub const fn new() -> Self {
        Bytes { d: [0; MAXB], n: 0 }
    }
    pub fn push(&mut self, b: u8) {
        self.d[self.n] = b;
        self.n += 1;
    }
    pub fn pop(&mut self) -> Option<u8> {
        if self.n == 0 {
            None
        } else {
            self.n -= 1;
            Some(self.d[self.n])
        }
    }
    pub fn eq_slice(&self, s: &[u8]) -> bool {
        if s.len() != self.n {
            return false;
        }
        let mut same = true;
        let mut i = 0;
        while i < MAXB {
            if i < self.n && self.d[i] != s[i] {
                same = false;
            }
            i += 1;
        }
        same
    }
}

/// an item: recognised tag or raw (unrecognised) bytes
#[derive(Clone, Copy, PartialEq, Eq)]
pub enum Item {
    Tag(u8),
    Raw(Bytes),
}

/// reference tokeniser state
#[derive(Clone, Copy)]
pub struct Model {
    pub q: usize,
    pub buf: Bytes,
    /// bytes to be scanned again, a stack (last element first)
    pub res: Bytes,
    pub cand: Option<(Item, usize)>,
}

impl Model {
    pub const fn start() -> Self {
        Model { q: 0, buf: Bytes::new(), res: Bytes::new(), cand: None }
    }

    fn take<const S: usize, const L: usize>(&mut self) -> Option<Item> {
        match self.cand.take() {
            None => None,
            Some((item, size)) => {
                // bytes after the longest complete match are scanned again, in order
                let mut i = MAXB;
                while i > 0 {
                    i -= 1;
                    if i >= size && i < self.buf.n {
                        self.res.push(self.buf.d[i]);
                    }
                }
                self.buf.n = 0;
                self.q = 0;
                Some(item)
            }
        }
    }

    pub fn step<const S: usize, const L: usize>(&mut self, dfa: &Dfa<S, L>, byte: u8) -> Option<Item> {
        self.buf.push(byte);
        match dfa.next(self.q, byte) {
            Some(q) => {
                self.q = q;
                if dfa.accepting(q) {
                    self.cand = Some((Item::Tag(dfa.acc[q]), self.buf.n));
                    if dfa.terminal(q) {
                        return self.take::<S, L>();
                    }
                }
                None
            }
            None => {
                if self.cand.is_some() {
                    return self.take::<S, L>();
                }
                // no complete match: everything before the failing byte is one raw item and
                // the failing byte is scanned again (unless it is alone)
                if self.buf.n > 1 {
                    self.res.push(byte);
                    self.buf.n -= 1;
                }
                self.q = 0;
                let raw = self.buf;
                self.buf.n = 0;
                Some(Item::Raw(raw))
            }
        }
    }

    /// `decode(input)`: rescheduled bytes first, then input until the first item;
    /// returns (item, number of input bytes consumed)
    pub fn decode<const S: usize, const L: usize, const N: usize>(
        &mut self,
        dfa: &Dfa<S, L>,
        input: &[u8; N],
        len: usize,
    ) -> (Option<Item>, usize) {
        let mut k = 0;
        while k < MAXB {
            if let Some(b) = self.res.pop() {
                if let Some(item) = self.step(dfa, b) {
                    return (Some(item), 0);
                }
            }
            k += 1;
        }
        let mut used = 0;
        let mut i = 0;
        while i < N {
            if i < len {
                used += 1;
                if let Some(item) = self.step(dfa, input[i]) {
                    return (Some(item), used);
                }
            }
            i += 1;
        }
        (None, used)
    }
}

fn same_item(real: &Option<Result<u8, surf_n_term::decoder::verif_hooks::Buffer>>, model: &Option<Item>) -> bool {
    match (real, model) {
        (None, None) => true,
        (Some(Ok(t)), Some(Item::Tag(m))) => t == m,
        (Some(Err(raw)), Some(Item::Raw(m))) => m.eq_slice(raw),
        _ => false,
    }
}

fn same_state(t: &Tokenizer<u8>, m: &Model) -> bool {
    let cand_ok = match (t.candidate(), &m.cand) {
        (None, None) => true,
        (Some((Ok(tag), size)), Some((Item::Tag(mt), ms))) => tag == mt && size == *ms,
        (Some((Err(raw), size)), Some((Item::Raw(mr), ms))) => mr.eq_slice(raw) && size == *ms,
        _ => false,
    };
    t.state() == m.q && m.buf.eq_slice(t.buffer()) && m.res.eq_slice(t.rescheduled()) && cand_ok
}

/// candidate kinds: 0 none, 1 recognised item at size `K`, 2 raw candidate at size `K`
pub fn any_state<const S: usize, const L: usize, const B: usize, const R: usize, const CK: usize, const K: usize>(
) -> (Model, [u8; B], [u8; R]) {
    let q: usize = any();
    assume(q < S);
    let buf: [u8; B] = any();
    let res: [u8; R] = any();
    let mut m = Model::start();
    m.q = q;
    let mut i = 0;
    while i < B {
        assume((buf[i] as usize) < L);
        m.buf.push(buf[i]);
        i += 1;
    }
    let mut i = 0;
    while i < R {
        assume((res[i] as usize) < L);
        m.res.push(res[i]);
        i += 1;
    }
    if CK == 1 {
        let tag: u8 = any();
        m.cand = Some((Item::Tag(tag), K));
    } else if CK == 2 {
        let mut raw = Bytes::new();
        let mut i = 0;
        while i < K {
            raw.push(buf[i]);
            i += 1;
        }
        m.cand = Some((Item::Raw(raw), K));
    }
    (m, buf, res)
}

pub fn install<const B: usize, const R: usize>(t: &mut Tokenizer<u8>, m: &Model, buf: &[u8; B], res: &[u8; R]) {
    let raw;
    let cand = match &m.cand {
        None => None,
        Some((Item::Tag(tag), size)) => Some((Ok(*tag), *size)),
        Some((Item::Raw(r), size)) => {
            raw = *r;
            Some((Err(&raw.d[..raw.n]), *size))
        }
    };
    t.set_state(m.q, buf, res, cand);
}

/// layer 1: one `decode_byte` from a concrete-shape state over a symbolic DFA
pub fn step_case<const S: usize, const L: usize, const B: usize, const R: usize, const CK: usize, const K: usize>() {
    let dfa = Dfa::<S, L>::any();
    let (mut m, buf, res) = any_state::<S, L, B, R, CK, K>();
    let mut t = dfa.tokenizer();
    install(&mut t, &m, &buf, &res);
    let byte: u8 = any();
    assume((byte as usize) < L);
    let real = t.step(byte);
    let want = m.step(&dfa, byte);
    witness!(want.is_some(), "an item is produced");
    witness!(want.is_none(), "no item yet");
    assert!(same_item(&real, &want), "C03: tokenizer step produced a different item than the reference");
    assert!(same_state(&t, &m), "C03: tokenizer step left a different state than the reference");
    if let Some(Err(raw)) = &real {
        assert!(!raw.is_empty() || B == 0, "C02: empty raw item");
    }
    std::mem::forget(real);
    std::mem::forget(t);
}

/// layer 2: one `decode(&mut &[u8])` call with `N` input bytes (`NP1 == N + 1`: the backing
/// array is never zero sized)
pub fn call_case<const S: usize, const L: usize, const B: usize, const R: usize, const CK: usize, const K: usize, const N: usize, const NP1: usize>() {
    let dfa = Dfa::<S, L>::any();
    let (mut m, buf, res) = any_state::<S, L, B, R, CK, K>();
    let mut t = dfa.tokenizer();
    install(&mut t, &m, &buf, &res);
    let input: [u8; NP1] = any();
    let mut i = 0;
    while i < N {
        assume((input[i] as usize) < L);
        i += 1;
    }
    let mut slice: &[u8] = &input[..N];
    let real = t.decode_slice(&mut slice);
    let (want, used) = m.decode(&dfa, &input, N);
    witness!(want.is_some() || N + R == 0, "an item is produced");
    witness!(want.is_none(), "input exhausted without an item");
    assert!(same_item(&real, &want), "C03: decode returned a different item than the reference");
    assert!(N - slice.len() == used, "C03: decode consumed a different number of input bytes");
    assert!(same_state(&t, &m), "C03: decode left a different state than the reference (state must survive between reads)");
    if real.is_none() {
        assert!(slice.is_empty(), "C02: decode reported nothing available with input left");
    }
    std::mem::forget(real);
    std::mem::forget(t);
}

/// all items the reference tokenizer produces for `input` (rescheduled bytes are scanned
/// before further input, exactly as `decode` does); `T` bounds the number of byte scans and
/// the harness asserts that it was enough
pub fn run_model<const S: usize, const L: usize, const N: usize, const T: usize>(
    dfa: &Dfa<S, L>,
    input: &[u8; N],
) -> ([Item; MAXB], usize, Model) {
    let mut m = Model::start();
    let mut items = [Item::Tag(0); MAXB];
    let mut n = 0;
    let mut pos = 0;
    let mut t = 0;
    while t < T {
        let got = if let Some(b) = m.res.pop() {
            m.step(dfa, b)
        } else if pos < N {
            pos += 1;
            m.step(dfa, input[pos - 1])
        } else {
            None
        };
        if let Some(item) = got {
            assert!(n < MAXB);
            items[n] = item;
            n += 1;
        }
        t += 1;
    }
    assert!(pos == N && m.res.n == 0, "C03 harness: scan bound T too small");
    (items, n, m)
}

/// layer 3b (model only): the items are the leftmost-longest tokenisation of the input,
/// written directly from the definition: at each position take the longest recognised
/// prefix; if none, the bytes before the failing byte form one raw item; a match that could
/// still be extended by more input is not decided yet.
pub fn munch_case<const S: usize, const L: usize, const N: usize, const T: usize>() {
    let dfa = Dfa::<S, L>::any();
    let input: [u8; N] = any();
    let mut i = 0;
    while i < N {
        assume((input[i] as usize) < L);
        i += 1;
    }
    let (got, n_got, m) = run_model::<S, L, N, T>(&dfa, &input);

    let mut want = [Item::Tag(0); MAXB];
    let mut n_want = 0;
    let mut p = 0;
    let mut undecided = false;
    let mut guard = 0;
    while guard < N {
        if p < N && !undecided {
            let mut q = 0usize;
            let mut last: Option<(u8, usize)> = None;
            let mut died: Option<usize> = None;
            let mut decided = false;
            let mut i = 0;
            while i < N {
                if i >= p && died.is_none() && !decided {
                    match dfa.next(q, input[i]) {
                        None => died = Some(i),
                        Some(q2) => {
                            q = q2;
                            if dfa.accepting(q) {
                                last = Some((dfa.acc[q], i + 1));
                                if dfa.terminal(q) {
                                    decided = true;
                                }
                            }
                        }
                    }
                }
                i += 1;
            }
            if decided || (died.is_some() && last.is_some()) {
                let (tag, end) = last.unwrap();
                want[n_want] = Item::Tag(tag);
                n_want += 1;
                p = end;
            } else if let Some(j) = died {
                let mut raw = Bytes::new();
                let end = if j > p { j } else { p + 1 };
                let mut k = 0;
                while k < N {
                    if k >= p && k < end {
                        raw.push(input[k]);
                    }
                    k += 1;
                }
                want[n_want] = Item::Raw(raw);
                n_want += 1;
                p = end;
            } else {
                undecided = true; // alive at the end of the input: more input may extend the match
            }
        }
        guard += 1;
    }
    witness!(n_want >= 2, "at least two items");
    assert!(n_got == n_want, "C03: number of items differs from the leftmost-longest tokenisation");
    let mut i = 0;
    while i < MAXB {
        if i < n_want {
            assert!(got[i] == want[i], "C03: items differ from the leftmost-longest tokenisation");
        }
        i += 1;
    }
    // nothing lost, duplicated or reordered: the undecided tail is exactly the pending bytes
    assert!(m.buf.n + m.res.n == N - p, "C03: pending bytes are not the undecided tail of the input");
    let mut k = 0;
    while k < MAXB {
        if k < m.buf.n {
            assert!(m.buf.d[k] == input[p + k], "C03: pending bytes are not the undecided tail of the input");
        }
        k += 1;
    }
}
