//! C09 — text writing stays inside its surface and loses no cell (layout kernel).
//!
//! `Cell::layout` is the single function that places every cell of a text (the `Text` view's
//! layout and render passes and `TerminalWriter::put_cell` all call it). One step from an
//! arbitrary tracked state `(size, cursor)` is decided here: the inductive step behind "the
//! reported layout contains every cell, nothing lands right of the available width".
use crate::nd::{any, assume};
use std::sync::Arc;
use surf_n_term::view::ViewContext;
use surf_n_term::{Cell, Face, Image, Position, Shape, Size};

/// sizes / positions explored
pub const BIG: usize = 1 << 32;

/// cell kinds: 0 narrow char, 1 wide char, 2 zero width char, 3 '\n', 4 '\r', 5 '\t',
/// 6 image cell of symbolic pixel size (cell size = ceil(pixels / pixels_per_cell))
pub fn make_cell<const KIND: usize>() -> (Cell, Size) {
    match KIND {
        0 => (Cell::new_char(Face::default(), 'a'), Size::new(1, 1)),
        1 => (Cell::new_char(Face::default(), '\u{4e16}'), Size::new(1, 2)),
        2 => (Cell::new_char(Face::default(), '\u{301}'), Size::new(1, 0)),
        3 => (Cell::new_char(Face::default(), '\n'), Size::new(0, 0)),
        4 => (Cell::new_char(Face::default(), '\r'), Size::new(0, 0)),
        5 => (Cell::new_char(Face::default(), '\t'), Size::new(0, 0)),
        _ => {
            let (h, w): (usize, usize) = (any(), any());
            assume(h <= 4096 && w <= 4096);
            let shape = Shape { start: 0, end: 0, width: w, height: h, row_stride: w, col_stride: 1 };
            let data: Arc<[surf_n_term::RGBA]> = Arc::new([]);
            let img = Image::from_parts(data, shape);
            // ViewContext::dummy(): 37 x 15 pixels per cell
            let ch = if h == 0 || w == 0 { 0 } else { (h + 36) / 37 };
            let cw = if h == 0 || w == 0 { 0 } else { (w + 14) / 15 };
            (Cell::new_image(img), Size::new(ch, cw))
        }
    }
}

pub fn layout_case<const KIND: usize>() {
    let ctx = ViewContext::dummy();
    let (cell, cell_size) = make_cell::<KIND>();
    let max_width: usize = any();
    let wraps: bool = any();
    let mut size = Size::new(any(), any());
    let mut cursor = Position::new(any(), any());
    assume(max_width >= 1 && max_width <= BIG);
    assume(size.height <= BIG && size.width <= max_width);
    assume(cursor.row <= BIG && cursor.col <= max_width);
    // what has been laid out so far is covered by the reported size
    assume(size.width >= cursor.col || cursor.col == 0 || true);
    let (size0, cursor0) = (size, cursor);
    let got = cell.layout(&ctx, max_width, wraps, &mut size, &mut cursor);
    witness!(got.is_some() || KIND >= 2, "cell placed");
    // the tracked size only grows and never exceeds the available width
    assert!(size.height >= size0.height && size.width >= size0.width, "C09: reported size shrank");
    assert!(size.width <= max_width, "C09: reported width exceeds the available width");
    // the cursor stays within the available width and never moves up
    assert!(cursor.col <= max_width, "C09: cursor beyond the available width");
    assert!(cursor.row >= cursor0.row, "C09: cursor moved up");
    match got {
        Some(pos) => {
            assert!(KIND <= 1 || KIND == 6, "C09: control or empty cell placed");
            assert!(cell_size.width > 0 && cell_size.height > 0, "C09: empty cell placed");
            // placed at the cursor, or at the start of the next line when wrapped
            let fits = cursor0.col + cell_size.width <= max_width;
            if fits {
                assert!(pos == cursor0, "C09: cell not placed at the cursor");
                assert!(cursor == Position::new(cursor0.row, cursor0.col + cell_size.width), "C09: cursor not advanced by the cell width");
            } else {
                assert!(wraps, "C09: cell beyond the right edge placed although wrapping is disabled");
                assert!(pos == Position::new(cursor0.row + 1, 0), "C09: wrapped cell not at the start of the next line");
                assert!(cursor.row == pos.row && cursor.col == if cell_size.width < max_width { cell_size.width } else { max_width },
                        "C09: cursor wrong after wrapping");
            }
            // inside the available width (a cell wider than the whole line is clipped at column 0)
            assert!(pos.col < max_width, "C09: cell placed right of the available width");
            assert!(pos.col + cell_size.width <= max_width || pos.col == 0, "C09: cell sticks out of the available width");
            // the reported size contains the cell
            let right = if pos.col + cell_size.width < max_width { pos.col + cell_size.width } else { max_width };
            assert!(size.width >= right && size.height >= pos.row + cell_size.height, "C09: reported size does not contain the cell");
        }
        None => {
            // nothing is dropped except what does not fit with wrapping disabled
            if KIND <= 1 || (KIND == 6 && cell_size.width > 0 && cell_size.height > 0) {
                assert!(!wraps && cursor0.col + cell_size.width > max_width, "C09: printable cell dropped");
                assert!(cursor == cursor0 && size == size0, "C09: dropped cell changed the layout");
            }
            if KIND == 3 {
                assert!(cursor == Position::new(cursor0.row + 1, 0), "C09: newline does not start a new line");
                assert!(size.height >= cursor0.row + 1 && size.width >= cursor0.col, "C09: newline loses the line's extent");
            }
            if KIND == 4 {
                assert!(cursor == Position::new(cursor0.row, 0) && size == size0, "C09: carriage return wrong");
            }
            if KIND == 5 {
                assert!(cursor.row == cursor0.row && cursor.col >= cursor0.col && cursor.col <= cursor0.col + 8, "C09: tab stop wrong");
                assert!(cursor.col == max_width || cursor.col % 8 == 0, "C09: tab does not stop at a multiple of eight or the edge");
                assert!(size.width >= cursor.col, "C09: tab not covered by the reported size");
            }
            if KIND == 2 {
                assert!(cursor == cursor0 && size == size0, "C09: zero width cell changed the layout");
            }
        }
    }
    std::mem::forget(cell);
}
