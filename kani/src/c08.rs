//! C08 — row/column range arguments resolve with Python-style slice semantics.
//!
//! Every harness: symbolic bound(s) over the whole integer type, symbolic axis length
//! `n <= N_MAX`; the real `ViewBounds::view_bounds` is compared with a reference slice
//! resolver written in `i128` from the statement of the property.
use crate::nd::{any, assume};
use surf_n_term::surface::ViewBounds;

/// axis lengths explored: quick tier `n <= 2^32`, thorough tier `n < 2^62`
/// (`2 * n` must fit `i64`, and no allocation exceeds `isize::MAX` elements)
pub const N_QUICK: usize = 1 << 32;
pub const N_WIDE: usize = (1 << 62) - 1;

#[derive(Clone, Copy)]
pub enum Sel {
    Index(i128),
    Range(i128, i128),
    From(i128),
    To(i128),
    Incl(i128, i128),
    ToIncl(i128),
    Full,
}

/// python `slice.indices` for one bound
fn norm(a: i128, n: i128) -> i128 {
    if a < 0 {
        if a + n < 0 { 0 } else { a + n }
    } else if a > n {
        n
    } else {
        a
    }
}

/// Reference resolver. Returns the set of acceptable answers (one, or two where the
/// statement leaves the clamping of an inclusive end below `-n` open).
pub fn reference(sel: Sel, n: usize) -> [Option<(usize, usize)>; 2] {
    let n = n as i128;
    let pack = |start: i128, end: i128| -> Option<(usize, usize)> {
        if n == 0 || start >= end {
            None
        } else {
            Some((start as usize, end as usize))
        }
    };
    // inclusive end: one past the element `b`
    let incl = |b: i128| -> [i128; 2] {
        if b >= n {
            [n, n]
        } else if b >= 0 {
            [b + 1, b + 1]
        } else if b >= -n {
            [b + n + 1, b + n + 1]
        } else {
            // element before the axis: "nothing" (python) or clamped to element 0
            [0, 1]
        }
    };
    match sel {
        Sel::Index(i) => {
            let r = if i >= -n && i < n {
                let k = if i < 0 { i + n } else { i };
                pack(k, k + 1)
            } else {
                None
            };
            [r, r]
        }
        Sel::Range(a, b) => {
            let r = pack(norm(a, n), norm(b, n));
            [r, r]
        }
        Sel::From(a) => {
            let r = pack(norm(a, n), n);
            [r, r]
        }
        Sel::To(b) => {
            let r = pack(0, norm(b, n));
            [r, r]
        }
        Sel::Incl(a, b) => {
            let [e0, e1] = incl(b);
            [pack(norm(a, n), e0), pack(norm(a, n), e1)]
        }
        Sel::ToIncl(b) => {
            let [e0, e1] = incl(b);
            [pack(0, e0), pack(0, e1)]
        }
        Sel::Full => {
            let r = pack(0, n);
            [r, r]
        }
    }
}

pub fn check(sel: Sel, n: usize, got: Option<(usize, usize)>) {
    if let Some((s, e)) = got {
        assert!(s < e && e <= n, "C08: result violates 0 <= start < end <= n");
    }
    let [r0, r1] = reference(sel, n);
    witness!(got.is_some(), "non-empty selection reachable");
    witness!(got.is_none(), "empty selection reachable");
    assert!(got == r0 || got == r1, "C08: result differs from python slice semantics");
}

macro_rules! c08_harness {
    ($t:ty, index, $nmax:expr) => {{
        let i: $t = any();
        let n: usize = any();
        assume(n <= $nmax);
        check(Sel::Index(i as i128), n, i.view_bounds(n));
    }};
    ($t:ty, range, $nmax:expr) => {{
        let a: $t = any();
        let b: $t = any();
        let n: usize = any();
        assume(n <= $nmax);
        check(Sel::Range(a as i128, b as i128), n, (a..b).view_bounds(n));
    }};
    ($t:ty, from, $nmax:expr) => {{
        let a: $t = any();
        let n: usize = any();
        assume(n <= $nmax);
        check(Sel::From(a as i128), n, (a..).view_bounds(n));
    }};
    ($t:ty, to, $nmax:expr) => {{
        let b: $t = any();
        let n: usize = any();
        assume(n <= $nmax);
        check(Sel::To(b as i128), n, (..b).view_bounds(n));
    }};
    ($t:ty, incl, $nmax:expr) => {{
        let a: $t = any();
        let b: $t = any();
        let n: usize = any();
        assume(n <= $nmax);
        check(Sel::Incl(a as i128, b as i128), n, (a..=b).view_bounds(n));
    }};
    ($t:ty, toincl, $nmax:expr) => {{
        let b: $t = any();
        let n: usize = any();
        assume(n <= $nmax);
        check(Sel::ToIncl(b as i128), n, (..=b).view_bounds(n));
    }};
}
pub(crate) use c08_harness;

/// @bounds n < 2^62
/// @encodes surface::<RangeFull as ViewBounds>::view_bounds, surface::range_bounds
#[cfg_attr(kani, kani::proof)]
pub fn c08_full() {
    let n: usize = any();
    assume(n <= N_WIDE);
    check(Sel::Full, n, (..).view_bounds(n));
}
