//! C05 — encoded commands mean exactly what was commanded to a VT/xterm interpreter.
//!
//! The real `TTYEncoder::encode` writes into a fixed sink; a small ECMA-48 / xterm control
//! sequence reader (written here from the standard: CSI = ESC [ private-marker? params
//! intermediates final; OSC/DCS = ESC ] / ESC P ... ESC \) parses the bytes back and the
//! harness compares (kind, marker, parameters, intermediate, final) with the command.
use crate::nd::{any, assume};
use std::io::Write;
use surf_n_term::encoder::{ColorDepth, Encoder, TTYEncoder};
use surf_n_term::{
    DecMode, Face, FaceAttrs, FaceModify, Position, RGBA, TerminalCaps, TerminalColor, TerminalCommand,
    UnderlineStyle,
};

pub const CAP: usize = 80;

pub struct Sink {
    pub data: [u8; CAP],
    pub len: usize,
}

impl Sink {
    pub fn new() -> Self {
        Sink { data: [0; CAP], len: 0 }
    }
}

impl Sink {
    fn put(&mut self, buf: &[u8]) {
        // one memcpy: a byte loop would be unwound to the global bound for every write whose
        // length is symbolic (formatted numbers)
        let n = buf.len();
        self.data[self.len..self.len + n].copy_from_slice(buf);
        self.len += n;
    }
}

struct FmtSink<'a>(&'a mut Sink);

impl std::fmt::Write for FmtSink<'_> {
    fn write_str(&mut self, s: &str) -> std::fmt::Result {
        self.0.put(s.as_bytes());
        Ok(())
    }
}

/// Infallible sink. `write_all` and `write_fmt` are overridden so that every result is the
/// constant `Ok(())`: the default implementations carry an `io::Error` whose drop glue
/// (a `Box<dyn Error>`) CBMC explores recursively at every `?`.
impl Write for Sink {
    fn write(&mut self, buf: &[u8]) -> std::io::Result<usize> {
        self.put(buf);
        Ok(buf.len())
    }
    fn write_all(&mut self, buf: &[u8]) -> std::io::Result<()> {
        self.put(buf);
        Ok(())
    }
    fn write_fmt(&mut self, args: std::fmt::Arguments<'_>) -> std::io::Result<()> {
        let _ = std::fmt::write(&mut FmtSink(self), args);
        Ok(())
    }
    fn flush(&mut self) -> std::io::Result<()> {
        Ok(())
    }
}

pub const NP: usize = 20;

/// one parsed CSI control sequence
#[derive(Clone, Copy)]
pub struct Seq {
    /// b'[' CSI
    pub kind: u8,
    /// private marker `? = < >` or 0
    pub marker: u8,
    /// numeric parameters; `sub[i]` tells the parameter was introduced by ':' (sub-parameter)
    pub nums: [u32; NP],
    pub sub: [bool; NP],
    /// an empty parameter (no digits) is recorded as `empty[i]`
    pub empty: [bool; NP],
    pub n: usize,
    /// intermediate byte 0x20..=0x2f or 0
    pub inter: u8,
    pub fin: u8,
}

impl Seq {
    pub const fn none() -> Self {
        Seq { kind: 0, marker: 0, nums: [0; NP], sub: [false; NP], empty: [false; NP], n: 0, inter: 0, fin: 0 }
    }
    pub fn is_csi(&self, marker: u8, inter: u8, fin: u8) -> bool {
        self.kind == b'[' && self.marker == marker && self.inter == inter && self.fin == fin
    }
}

/// Cursor over the emitted bytes. A small ECMA-48 reader: every loop has a fixed trip count
/// and is guarded, so symbolic output lengths do not create symbolic loop exits.
pub struct Cur<'a> {
    pub buf: &'a [u8; CAP],
    pub len: usize,
    pub pos: usize,
    /// false once something that is not a complete control sequence was met
    pub ok: bool,
}

impl<'a> Cur<'a> {
    pub fn new(sink: &'a Sink) -> Self {
        Cur { buf: &sink.data, len: sink.len, pos: 0, ok: true }
    }
    pub fn more(&self) -> bool {
        self.pos < self.len
    }
    pub fn peek(&self) -> u8 {
        if self.pos < self.len { self.buf[self.pos] } else { 0 }
    }
    pub fn next(&mut self) -> u8 {
        let b = self.peek();
        if self.pos < self.len {
            self.pos += 1;
        } else {
            self.ok = false;
        }
        b
    }
    pub fn eat(&mut self, b: u8) {
        if self.next() != b {
            self.ok = false;
        }
    }
    /// decimal number of at most `DIGITS` digits; returns (value, had digits)
    pub fn number<const DIGITS: usize>(&mut self) -> (u32, bool) {
        let mut v: u32 = 0;
        let mut had = false;
        let mut i = 0;
        while i < DIGITS {
            let b = self.peek();
            if self.more() && b >= b'0' && b <= b'9' {
                v = v * 10 + (b - b'0') as u32;
                had = true;
                self.pos += 1;
            }
            i += 1;
        }
        // more digits than the command can legitimately produce
        let b = self.peek();
        if self.more() && b >= b'0' && b <= b'9' {
            self.ok = false;
        }
        (v, had)
    }
    /// `ESC [ marker? (number ((;|:) number)*)? intermediate? final` with at most `N` parameters
    pub fn csi<const N: usize, const DIGITS: usize>(&mut self) -> Seq {
        let mut s = Seq::none();
        self.eat(0x1b);
        self.eat(b'[');
        s.kind = b'[';
        let b = self.peek();
        if b == b'?' || b == b'=' || b == b'<' || b == b'>' {
            s.marker = b;
            self.pos += 1;
        }
        let mut sub = false;
        let mut done = false;
        let mut i = 0;
        while i < N {
            if !done {
                let (v, had) = self.number::<DIGITS>();
                let b = self.peek();
                let sep = self.more() && (b == b';' || b == b':');
                if had || sep || i > 0 {
                    s.nums[s.n] = v;
                    s.sub[s.n] = sub;
                    s.empty[s.n] = !had;
                    s.n += 1;
                }
                if sep {
                    sub = b == b':';
                    self.pos += 1;
                } else {
                    done = true;
                }
            }
            i += 1;
        }
        if !done {
            self.ok = false; // more parameters than any command produces
        }
        let b = self.peek();
        if self.more() && b >= 0x20 && b <= 0x2f {
            s.inter = b;
            self.pos += 1;
        }
        let b = self.next();
        if b >= 0x40 && b <= 0x7e {
            s.fin = b;
        } else {
            self.ok = false;
        }
        s
    }
    pub fn finished(&self) -> bool {
        self.ok && self.pos == self.len
    }
}

pub fn encode(caps: TerminalCaps, cmd: TerminalCommand) -> Sink {
    let mut enc = TTYEncoder::new(caps);
    let mut sink = Sink::new();
    let res = enc.encode(&mut sink, cmd);
    assert!(res.is_ok(), "C05: encoding failed");
    std::mem::forget(res);
    std::mem::forget(enc);
    sink
}

pub fn caps(depth: ColorDepth, kitty: bool) -> TerminalCaps {
    TerminalCaps { depth, glyphs: false, kitty_keyboard: kitty }
}

/// the whole output is exactly one CSI sequence
fn only_csi<const N: usize, const DIGITS: usize>(sink: &Sink, marker: u8, inter: u8, fin: u8) -> Seq {
    let mut cur = Cur::new(sink);
    let s = cur.csi::<N, DIGITS>();
    assert!(cur.ok, "C05: output is not a complete control sequence");
    assert!(cur.finished(), "C05: command emitted something besides its control sequence");
    assert!(s.is_csi(marker, inter, fin), "C05: wrong control function emitted");
    s
}

/// positions explored (terminal coordinates are at most 65535)
pub const POS_MAX: usize = 99_999;

/// CUP: `CSI row+1 ; col+1 H`
/// @bounds row, col <= 99999
/// @encodes encoder::TTYEncoder::encode[CursorTo]
#[cfg_attr(kani, kani::proof)]
#[cfg_attr(kani, kani::unwind(10))]
pub fn c05_cursor_to() {
    let row: usize = any();
    let col: usize = any();
    assume(row <= POS_MAX && col <= POS_MAX);
    let sink = encode(caps(ColorDepth::TrueColor, false), TerminalCommand::CursorTo(Position { row, col }));
    let s = only_csi::<3, 7>(&sink, 0, 0, b'H');
    witness!(row > 9999, "five digit row");
    assert!(s.n == 2 && !s.sub[1] && !s.empty[0] && !s.empty[1], "C05: CUP needs two parameters");
    assert!(s.nums[0] as usize == row + 1 && s.nums[1] as usize == col + 1, "C05: CUP addresses another cell");
}

/// signed distance: any small value (symbolic) or one of the extreme values
pub fn any_move() -> i32 {
    let v: i32 = any();
    let k: u8 = any();
    match k {
        0 => i32::MIN,
        1 => i32::MIN + 1,
        2 => i32::MAX,
        _ => {
            assume(v >= -99_999 && v <= 99_999);
            v
        }
    }
}

/// relative move: CUF/CUB for columns then CUD/CUU for rows, magnitude |n|, nothing for 0
/// @bounds row, col in -99999..=99999 and the extremes i32::MIN, i32::MIN+1, i32::MAX
/// @encodes encoder::TTYEncoder::encode[CursorMove]
/// @timeout 900
#[cfg_attr(kani, kani::proof)]
#[cfg_attr(kani, kani::unwind(13))]
pub fn c05_cursor_move() {
    let row: i32 = any_move();
    let col: i32 = any_move();
    let sink = encode(caps(ColorDepth::TrueColor, false), TerminalCommand::CursorMove { row, col });
    let mut cur = Cur::new(&sink);
    witness!(row == i32::MIN, "extreme move");
    if col != 0 {
        let s = cur.csi::<2, 10>();
        let fin = if col > 0 { b'C' } else { b'D' };
        assert!(cur.ok && s.is_csi(0, 0, fin) && s.n == 1 && !s.empty[0], "C05: wrong horizontal move");
        assert!(s.nums[0] as i64 == (col as i64).abs(), "C05: wrong horizontal distance");
    }
    if row != 0 {
        let s = cur.csi::<2, 10>();
        let fin = if row > 0 { b'B' } else { b'A' };
        assert!(cur.ok && s.is_csi(0, 0, fin) && s.n == 1 && !s.empty[0], "C05: wrong vertical move");
        assert!(s.nums[0] as i64 == (row as i64).abs(), "C05: wrong vertical distance");
    }
    assert!(cur.finished(), "C05: cursor move emitted something else");
}

/// SU / SD
/// @bounds count in -99999..=99999 and the extremes i32::MIN, i32::MIN+1, i32::MAX
/// @encodes encoder::TTYEncoder::encode[Scroll]
/// @timeout 900
#[cfg_attr(kani, kani::proof)]
#[cfg_attr(kani, kani::unwind(13))]
pub fn c05_scroll() {
    let count: i32 = any_move();
    let sink = encode(caps(ColorDepth::TrueColor, false), TerminalCommand::Scroll(count));
    witness!(count == i32::MIN, "extreme scroll");
    if count == 0 {
        assert!(sink.len == 0, "C05: scroll by zero emitted something");
    } else {
        let fin = if count > 0 { b'S' } else { b'T' };
        let s = only_csi::<2, 10>(&sink, 0, 0, fin);
        assert!(s.n == 1 && !s.empty[0], "C05: wrong scroll function");
        assert!(s.nums[0] as i64 == (count as i64).abs(), "C05: wrong scroll distance");
    }
}

/// ECH and DECSTBM
/// @bounds count, start, end <= 99999
/// @encodes encoder::TTYEncoder::encode[EraseChars], encoder::TTYEncoder::encode[ScrollRegion]
#[cfg_attr(kani, kani::proof)]
#[cfg_attr(kani, kani::unwind(10))]
pub fn c05_erase_chars_scroll_region() {
    let count: usize = any();
    assume(count <= POS_MAX);
    let sink = encode(caps(ColorDepth::TrueColor, false), TerminalCommand::EraseChars(count));
    let s = only_csi::<2, 7>(&sink, 0, 0, b'X');
    assert!(s.n == 1 && s.nums[0] as usize == count && !s.empty[0], "C05: ECH erases another count");

    let start: usize = any();
    let end: usize = any();
    assume(start <= POS_MAX && end <= POS_MAX);
    let sink = encode(caps(ColorDepth::TrueColor, false), TerminalCommand::ScrollRegion { start, end });
    let s = only_csi::<3, 7>(&sink, 0, 0, b'r');
    witness!(end > start, "non-empty region");
    if end > start {
        assert!(s.n == 2 && s.nums[0] as usize == start + 1 && s.nums[1] as usize == end + 1 && !s.sub[1],
                "C05: DECSTBM sets another region");
    } else {
        assert!(s.n == 0, "C05: region reset carries parameters");
    }
}

pub fn dec_mode(i: u8) -> DecMode {
    match i {
        0 => DecMode::VisibleCursor,
        1 => DecMode::AutoWrap,
        2 => DecMode::SixelScrolling,
        3 => DecMode::MouseReport,
        4 => DecMode::MouseMotions,
        5 => DecMode::MouseSGR,
        6 => DecMode::AltScreen,
        7 => DecMode::SynchronizedOutput,
        _ => DecMode::BracketedPaste,
    }
}

/// xterm numbers of the DEC private modes (from ctlseqs)
pub fn dec_mode_number(mode: DecMode) -> u32 {
    match mode {
        DecMode::VisibleCursor => 25,
        DecMode::AutoWrap => 7,
        DecMode::SixelScrolling => 80,
        DecMode::MouseReport => 1000,
        DecMode::MouseMotions => 1003,
        DecMode::MouseSGR => 1006,
        DecMode::AltScreen => 1049,
        DecMode::SynchronizedOutput => 2026,
        DecMode::BracketedPaste => 2004,
    }
}

/// DECSET / DECRST / DECRQM, and the kitty keyboard level that accompanies the alternate screen
/// @bounds every DEC mode x enable x kitty_keyboard capability
/// @encodes encoder::TTYEncoder::encode[DecModeSet], encoder::TTYEncoder::encode[DecModeGet], encoder::TTYEncoder::kitty_level
#[cfg_attr(kani, kani::proof)]
#[cfg_attr(kani, kani::unwind(8))]
pub fn c05_dec_mode() {
    let mi: u8 = any();
    assume(mi < 9);
    let mode = dec_mode(mi);
    let enable: bool = any();
    let kitty: bool = any();
    let sink = encode(caps(ColorDepth::TrueColor, kitty), TerminalCommand::DecModeSet { enable, mode });
    let mut cur = Cur::new(&sink);
    let alt = matches!(mode, DecMode::AltScreen);
    witness!(alt && kitty && !enable, "leaving alt screen with kitty keyboard");
    let fin = if enable { b'h' } else { b'l' };
    // the keyboard level is kept per screen: cleared before leaving the alternate screen ...
    if alt && kitty && !enable {
        let level = cur.csi::<2, 5>();
        assert!(cur.ok && level.is_csi(b'=', 0, b'u') && level.n == 1 && level.nums[0] == 0,
                "C05: keyboard level must be cleared before leaving the alternate screen");
    }
    let set = cur.csi::<2, 5>();
    assert!(cur.ok && set.is_csi(b'?', 0, fin) && set.n == 1 && !set.empty[0], "C05: wrong DEC mode function");
    assert!(set.nums[0] == dec_mode_number(mode), "C05: wrong DEC mode number");
    // ... and pushed after entering it
    if alt && kitty && enable {
        let level = cur.csi::<2, 5>();
        assert!(cur.ok && level.is_csi(b'=', 0, b'u') && level.n == 1 && level.nums[0] == 5,
                "C05: keyboard level must be set after entering the alternate screen");
    }
    assert!(cur.finished(), "C05: mode switch emitted extra bytes");

    let sink = encode(caps(ColorDepth::TrueColor, kitty), TerminalCommand::DecModeGet(mode));
    let s = only_csi::<2, 5>(&sink, b'?', b'$', b'p');
    assert!(s.n == 1 && s.nums[0] == dec_mode_number(mode), "C05: DECRQM asks for another mode");
}

/// kitty keyboard level
/// @bounds level <= 9999, both capability settings
/// @encodes encoder::TTYEncoder::encode[KeyboardLevel]
#[cfg_attr(kani, kani::proof)]
#[cfg_attr(kani, kani::unwind(8))]
pub fn c05_keyboard_level() {
    let level: usize = any();
    assume(level <= 9999);
    let kitty: bool = any();
    let sink = encode(caps(ColorDepth::TrueColor, kitty), TerminalCommand::KeyboardLevel(level));
    witness!(kitty, "kitty keyboard supported");
    if kitty {
        let s = only_csi::<2, 5>(&sink, b'=', 0, b'u');
        assert!(s.n == 1 && s.nums[0] as usize == level, "C05: wrong keyboard level");
    } else {
        assert!(sink.len == 0, "C05: keyboard level sent to a terminal without the capability");
    }
}

fn expect_exact(cmd: TerminalCommand, want: &[u8]) {
    let sink = encode(caps(ColorDepth::TrueColor, false), cmd);
    assert!(sink.len == want.len(), "C05: fixed command has a wrong length");
    let mut i = 0;
    while i < want.len() {
        assert!(sink.data[i] == want[i], "C05: fixed command differs from the standard sequence");
        i += 1;
    }
}

/// parameterless commands against the byte sequences the standards give for them:
/// DSR 6 `CSI 6 n`, DECSC `ESC 7`, DECRC `ESC 8`, EL `CSI K` / `CSI 1 K` / `CSI 2 K`,
/// ED 2 `CSI 2 J`, RIS `ESC c`, DA1 `CSI c`, DECRQSS SGR `DCS $ q m ST`
/// @bounds the ten parameterless commands (concrete)
/// @encodes encoder::TTYEncoder::encode[CursorGet..DeviceAttrs]
#[cfg_attr(kani, kani::proof)]
#[cfg_attr(kani, kani::unwind(12))]
pub fn c05_fixed_commands() {
    expect_exact(TerminalCommand::CursorGet, b"\x1b[6n");
    expect_exact(TerminalCommand::CursorSave, b"\x1b7");
    expect_exact(TerminalCommand::CursorRestore, b"\x1b8");
    expect_exact(TerminalCommand::EraseLineRight, b"\x1b[K");
    expect_exact(TerminalCommand::EraseLineLeft, b"\x1b[1K");
    expect_exact(TerminalCommand::EraseLine, b"\x1b[2K");
    expect_exact(TerminalCommand::EraseScreen, b"\x1b[2J");
    expect_exact(TerminalCommand::Reset, b"\x1bc");
    expect_exact(TerminalCommand::DeviceAttrs, b"\x1b[c");
    expect_exact(TerminalCommand::FaceGet, b"\x1bP$qm\x1b\\");
    witness!(true, "end reached");
}

/// own UTF-8 encoder (RFC 3629)
pub fn utf8(c: u32, out: &mut [u8; 4]) -> usize {
    if c < 0x80 {
        out[0] = c as u8;
        1
    } else if c < 0x800 {
        out[0] = 0xc0 | (c >> 6) as u8;
        out[1] = 0x80 | (c & 0x3f) as u8;
        2
    } else if c < 0x10000 {
        out[0] = 0xe0 | (c >> 12) as u8;
        out[1] = 0x80 | ((c >> 6) & 0x3f) as u8;
        out[2] = 0x80 | (c & 0x3f) as u8;
        3
    } else {
        out[0] = 0xf0 | (c >> 18) as u8;
        out[1] = 0x80 | ((c >> 12) & 0x3f) as u8;
        out[2] = 0x80 | ((c >> 6) & 0x3f) as u8;
        out[3] = 0x80 | (c & 0x3f) as u8;
        4
    }
}

pub fn any_char() -> char {
    let v: u32 = any();
    assume(v <= 0x10ffff && !(v >= 0xd800 && v <= 0xdfff));
    char::from_u32(v).unwrap()
}

/// a character is sent as its UTF-8 encoding and nothing else
/// @bounds every Unicode scalar value
/// @encodes encoder::TTYEncoder::encode[Char]
#[cfg_attr(kani, kani::proof)]
#[cfg_attr(kani, kani::unwind(8))]
pub fn c05_char() {
    let c = any_char();
    let sink = encode(caps(ColorDepth::TrueColor, false), TerminalCommand::Char(c));
    let mut want = [0u8; 4];
    let n = utf8(c as u32, &mut want);
    witness!(n == 4, "four byte character");
    assert!(sink.len == n, "C05: character encoded with a wrong length");
    let mut i = 0;
    while i < 4 {
        if i < n {
            assert!(sink.data[i] == want[i], "C05: character not sent as its UTF-8 encoding");
        }
        i += 1;
    }
}

pub fn hex_val(b: u8) -> u32 {
    match b {
        b'0'..=b'9' => (b - b'0') as u32,
        b'a'..=b'f' => (b - b'a' + 10) as u32,
        b'A'..=b'F' => (b - b'A' + 10) as u32,
        _ => 99,
    }
}

/// OSC 10 / 11 / 4;index set and query: `OSC Ps ; [index ;] spec ST`
/// (`WHICH`: 0 foreground, 1 background, 2 palette entry; `QUERY`: ask instead of set)
pub fn color_case<const WHICH: u8, const QUERY: bool>() {
    let which = WHICH;
    let index: usize = any();
    assume(index <= 999);
    let name = match which {
        0 => TerminalColor::Foreground,
        1 => TerminalColor::Background,
        _ => TerminalColor::Palette(index),
    };
    let rgb: [u8; 3] = any();
    let query: bool = QUERY;
    let color = if query { None } else { Some(RGBA::new(rgb[0], rgb[1], rgb[2], 255)) };
    let sink = encode(caps(ColorDepth::TrueColor, false), TerminalCommand::Color { name, color });
    let mut cur = Cur::new(&sink);
    cur.eat(0x1b);
    cur.eat(b']');
    let (ps, had) = cur.number::<3>();
    cur.eat(b';');
    let want_ps = match which {
        0 => 10,
        1 => 11,
        _ => 4,
    };
    assert!(cur.ok && had && ps == want_ps, "C05: wrong OSC number");
    if which == 2 {
        let (idx, had) = cur.number::<4>();
        cur.eat(b';');
        assert!(cur.ok && had && idx as usize == index, "C05: wrong palette index");
    }
    witness!(rgb[0] < 16, "channel below 0x10");
    if query {
        cur.eat(b'?');
    } else {
        // XParseColor, read back with the X11 rules: `#rrggbb`, or `rgb:r/g/b` with 1..4 hex
        // digits per component scaled to the component's width
        if cur.peek() == b'#' {
            cur.eat(b'#');
            let mut k = 0;
            while k < 3 {
                let hi = hex_val(cur.next());
                let lo = hex_val(cur.next());
                assert!(hi < 16 && lo < 16 && hi * 16 + lo == rgb[k] as u32, "C05: another colour was set");
                k += 1;
            }
        } else {
            cur.eat(b'r');
            cur.eat(b'g');
            cur.eat(b'b');
            cur.eat(b':');
            let mut k = 0;
            while k < 3 {
                let mut v: u32 = 0;
                let mut n = 0;
                let mut d = 0;
                while d < 4 {
                    if cur.more() && hex_val(cur.peek()) < 16 {
                        v = v * 16 + hex_val(cur.peek());
                        n += 1;
                        cur.pos += 1;
                    }
                    d += 1;
                }
                // scale an n digit component to 8 bits as X11 does (h -> hh, hhh -> top 8 bits ...)
                let scaled = match n {
                    1 => v * 17,
                    2 => v,
                    3 => v >> 4,
                    4 => v >> 8,
                    _ => 999,
                };
                assert!(scaled == rgb[k] as u32, "C05: another colour was set");
                if k < 2 {
                    cur.eat(b'/');
                }
                k += 1;
            }
        }
    }
    cur.eat(0x1b);
    cur.eat(b'\\');
    assert!(cur.finished(), "C05: OSC colour sequence malformed or followed by extra bytes");
}

/// XTGETTCAP `DCS + q name ST`: every name byte as two hex digits
/// @bounds one capability name of 2 arbitrary non-NUL ASCII bytes
/// @encodes encoder::TTYEncoder::encode[Termcap]
#[cfg_attr(kani, kani::proof)]
#[cfg_attr(kani, kani::unwind(3))]
pub fn c05_termcap() {
    let b: [u8; 2] = any();
    assume(b[0] > 0 && b[0] < 128 && b[1] > 0 && b[1] < 128);
    let mut names = Vec::with_capacity(1);
    let mut s0 = String::with_capacity(2);
    s0.push(b[0] as char);
    s0.push(b[1] as char);
    names.push(s0);
    let sink = encode(caps(ColorDepth::TrueColor, false), TerminalCommand::Termcap(names));
    let mut cur = Cur::new(&sink);
    cur.eat(0x1b);
    cur.eat(b'P');
    cur.eat(b'+');
    cur.eat(b'q');
    witness!(b[0] < 16, "name byte below 0x10");
    let hi = hex_val(cur.next());
    let lo = hex_val(cur.next());
    assert!(hi < 16 && lo < 16 && hi * 16 + lo == b[0] as u32, "C05: capability name is not two hex digits per byte");
    let hi = hex_val(cur.next());
    let lo = hex_val(cur.next());
    assert!(hi < 16 && lo < 16 && hi * 16 + lo == b[1] as u32, "C05: capability name is not two hex digits per byte");
    cur.eat(0x1b);
    cur.eat(b'\\');
    assert!(cur.finished(), "C05: XTGETTCAP request malformed");
}

/// title `OSC 0 ; text ST` and raw bytes
/// @bounds title of 3 printable ASCII characters; raw payload of 3 arbitrary bytes
/// @encodes encoder::TTYEncoder::encode[Title], encoder::TTYEncoder::encode[Raw]
#[cfg_attr(kani, kani::proof)]
#[cfg_attr(kani, kani::unwind(8))]
pub fn c05_title_raw() {
    let t: [u8; 3] = any();
    assume(t[0] >= 0x20 && t[0] < 0x7f && t[1] >= 0x20 && t[1] < 0x7f && t[2] >= 0x20 && t[2] < 0x7f);
    let mut title = String::with_capacity(4);
    title.push(t[0] as char);
    title.push(t[1] as char);
    title.push(t[2] as char);
    let sink = encode(caps(ColorDepth::TrueColor, false), TerminalCommand::Title(title));
    let mut cur = Cur::new(&sink);
    cur.eat(0x1b);
    cur.eat(b']');
    cur.eat(b'0');
    cur.eat(b';');
    cur.eat(t[0]);
    cur.eat(t[1]);
    cur.eat(t[2]);
    cur.eat(0x1b);
    cur.eat(b'\\');
    assert!(cur.finished(), "C05: title sequence malformed");

    let r: [u8; 3] = any();
    let mut raw = Vec::with_capacity(4);
    raw.push(r[0]);
    raw.push(r[1]);
    raw.push(r[2]);
    let sink = encode(caps(ColorDepth::TrueColor, false), TerminalCommand::Raw(raw));
    assert!(sink.len == 3 && sink.data[0] == r[0] && sink.data[1] == r[1] && sink.data[2] == r[2], "C05: raw bytes changed");
    witness!(true, "end reached");
}

// ---------------------------------------------------------------------------------------------
// SGR
// ---------------------------------------------------------------------------------------------

/// what a standards following interpreter holds after executing SGR parameters
#[derive(Clone, Copy, PartialEq, Eq)]
pub struct SgrState {
    pub fg: Option<[u8; 3]>,
    pub bg: Option<[u8; 3]>,
    pub ul_color: Option<[u8; 3]>,
    /// 0 none, 1 straight, 2 double, 3 curly, 4 dotted, 5 dashed
    pub underline: u8,
    pub bold: bool,
    pub italic: bool,
    pub blink: bool,
    pub reverse: bool,
    pub strike: bool,
    /// parameters the reference machine does not know
    pub unknown: bool,
    /// palette (indexed) colour selections seen: (role 38/48/58, index)
    pub indexed: [(u32, u32); 3],
    pub n_indexed: usize,
    /// basic 16 colour selections seen (30..37, 40..47, 90..97, 100..107)
    pub basic: [u32; 3],
    pub n_basic: usize,
}

impl SgrState {
    pub const fn reset() -> Self {
        SgrState { fg: None, bg: None, ul_color: None, underline: 0, bold: false, italic: false, blink: false,
                   reverse: false, strike: false, unknown: false, indexed: [(0, 0); 3], n_indexed: 0,
                   basic: [0; 3], n_basic: 0 }
    }
}

/// Reference SGR machine (ECMA-48 8.3.117 + xterm/kitty extensions for 38/48/58 and 4:n).
/// Starts from `state`; returns the state after the parameters of `s`.
pub fn sgr_run(s: &Seq, st: SgrState) -> SgrState {
    sgr_run_n::<NP>(s, st)
}

/// as `sgr_run` for sequences of at most `P` parameters (fixed trip count `P`)
pub fn sgr_run_n<const P: usize>(s: &Seq, mut st: SgrState) -> SgrState {
    if s.n == 0 {
        return SgrState::reset();
    }
    let mut i = 0;
    let mut guard = 0;
    while guard < P {
        if i < s.n {
            let p = s.nums[i];
            // sub-parameters belonging to p
            if p == 38 || p == 48 || p == 58 {
                let colon = i + 1 < s.n && s.sub[i + 1];
                let mode = if i + 1 < s.n { s.nums[i + 1] } else { 99 };
                let mut color = None;
                let mut used = 1;
                if mode == 2 {
                    if colon {
                        // 38:2:r:g:b or 38:2:cs:r:g:b
                        let mut cnt = 0;
                        let mut j = i + 2;
                        let mut g2 = 0;
                        while g2 < 5 {
                            if j < s.n && s.sub[j] {
                                cnt += 1;
                                j += 1;
                            }
                            g2 += 1;
                        }
                        if cnt == 3 {
                            color = Some([s.nums[i + 2] as u8, s.nums[i + 3] as u8, s.nums[i + 4] as u8]);
                            if s.nums[i + 2] > 255 || s.nums[i + 3] > 255 || s.nums[i + 4] > 255 {
                                st.unknown = true;
                            }
                        } else if cnt == 4 {
                            color = Some([s.nums[i + 3] as u8, s.nums[i + 4] as u8, s.nums[i + 5] as u8]);
                        } else {
                            st.unknown = true;
                        }
                        used = 2 + cnt;
                    } else if i + 4 < s.n {
                        // 38;2;r;g;b
                        color = Some([s.nums[i + 2] as u8, s.nums[i + 3] as u8, s.nums[i + 4] as u8]);
                        if s.nums[i + 2] > 255 || s.nums[i + 3] > 255 || s.nums[i + 4] > 255 {
                            st.unknown = true;
                        }
                        used = 5;
                    } else {
                        st.unknown = true;
                        used = s.n - i;
                    }
                    if p == 38 {
                        st.fg = color;
                    } else if p == 48 {
                        st.bg = color;
                    } else {
                        st.ul_color = color;
                    }
                } else if mode == 5 && i + 2 < s.n {
                    if st.n_indexed < 3 {
                        st.indexed[st.n_indexed] = (p, s.nums[i + 2]);
                        st.n_indexed += 1;
                    }
                    used = 3;
                } else {
                    st.unknown = true;
                    used = s.n - i;
                }
                i += used;
            } else if p == 4 {
                if i + 1 < s.n && s.sub[i + 1] {
                    let style = s.nums[i + 1];
                    if style <= 5 {
                        st.underline = style as u8;
                    } else {
                        st.unknown = true;
                    }
                    i += 2;
                } else {
                    st.underline = 1;
                    i += 1;
                }
            } else {
                if s.sub[i] {
                    st.unknown = true;
                }
                match p {
                    0 => st = SgrState { unknown: st.unknown, ..SgrState::reset() },
                    1 => st.bold = true,
                    3 => st.italic = true,
                    5 => st.blink = true,
                    7 => st.reverse = true,
                    9 => st.strike = true,
                    21 => st.underline = 2,
                    22 => st.bold = false,
                    23 => st.italic = false,
                    24 => st.underline = 0,
                    25 => st.blink = false,
                    27 => st.reverse = false,
                    29 => st.strike = false,
                    39 => st.fg = None,
                    49 => st.bg = None,
                    59 => st.ul_color = None,
                    30..=37 | 40..=47 | 90..=97 | 100..=107 => {
                        if st.n_basic < 3 {
                            st.basic[st.n_basic] = p;
                            st.n_basic += 1;
                        }
                    }
                    _ => st.unknown = true,
                }
                i += 1;
            }
        }
        guard += 1;
    }
    st
}

pub fn any_attrs() -> (FaceAttrs, u8, [bool; 5]) {
    let ul: u8 = any();
    assume(ul <= 5);
    let flags: [bool; 5] = [any(), any(), any(), any(), any()];
    let mut attrs = match ul {
        1 => FaceAttrs::UNDERLINE,
        2 => FaceAttrs::UNDERLINE_DOUBLE,
        3 => FaceAttrs::UNDERLINE_CURLY,
        4 => FaceAttrs::UNDERLINE_DOTTED,
        5 => FaceAttrs::UNDERLINE_DASHED,
        _ => FaceAttrs::EMPTY,
    };
    if flags[0] {
        attrs = attrs | FaceAttrs::BOLD;
    }
    if flags[1] {
        attrs = attrs | FaceAttrs::ITALIC;
    }
    if flags[2] {
        attrs = attrs | FaceAttrs::BLINK;
    }
    if flags[3] {
        attrs = attrs | FaceAttrs::REVERSE;
    }
    if flags[4] {
        attrs = attrs | FaceAttrs::STRIKE;
    }
    (attrs, ul, flags)
}

pub fn any_color() -> (Option<RGBA>, Option<[u8; 3]>) {
    let on: bool = any();
    let c: [u8; 3] = any();
    if on {
        (Some(RGBA::new(c[0], c[1], c[2], 255)), Some(c))
    } else {
        (None, None)
    }
}

/// `Face` in true colour: one SGR that, executed from ANY previous rendition, leaves exactly
/// the requested colours and attributes (so it must start with a reset) and nothing else
/// @bounds every opaque fg/bg (or none) x every underline style x every flag combination
/// @encodes encoder::TTYEncoder::encode[Face], encoder::color_sgr_encode[TrueColor], encoder::Chunks
/// @tier experimental @timeout 3000
#[cfg_attr(kani, kani::proof)]
#[cfg_attr(kani, kani::unwind(22))]
pub fn c05_face_truecolor() {
    let (fg, fg_want) = any_color();
    let (bg, bg_want) = any_color();
    let (attrs, ul, flags) = any_attrs();
    let sink = encode(caps(ColorDepth::TrueColor, false), TerminalCommand::Face(Face::new(fg, bg, attrs)));
    let s = only_csi::<NP, 3>(&sink, 0, 0, b'm');
    // previous rendition: everything set, so that a missing reset shows
    let dirty = SgrState { fg: Some([1, 2, 3]), bg: Some([4, 5, 6]), ul_color: None, underline: 3, bold: true,
                           italic: true, blink: true, reverse: true, strike: true, ..SgrState::reset() };
    let st = sgr_run(&s, dirty);
    witness!(fg.is_some() && bg.is_some() && ul == 3 && flags[4], "colours, curly underline and strike");
    assert!(!st.unknown, "C05: SGR contains parameters a VT/xterm interpreter does not define");
    assert!(st.n_indexed == 0 && st.n_basic == 0, "C05: true colour face selected a palette entry");
    assert!(st.fg == fg_want && st.bg == bg_want, "C05: face selects other colours than requested");
    assert!(st.underline == ul, "C05: face selects another underline style");
    assert!(st.bold == flags[0] && st.italic == flags[1] && st.blink == flags[2] && st.reverse == flags[3]
            && st.strike == flags[4], "C05: face selects other attributes than requested");
}

pub fn any_opt_bool() -> Option<bool> {
    let v: u8 = any();
    assume(v < 3);
    match v {
        0 => None,
        1 => Some(false),
        _ => Some(true),
    }
}

pub fn underline_style(i: u8) -> UnderlineStyle {
    match i {
        1 => UnderlineStyle::Straight,
        2 => UnderlineStyle::Double,
        3 => UnderlineStyle::Curly,
        4 => UnderlineStyle::Dotted,
        5 => UnderlineStyle::Dashed,
        _ => UnderlineStyle::None,
    }
}

pub struct AnyModify {
    pub m: FaceModify,
    pub fg: Option<[u8; 3]>,
    pub bg: Option<[u8; 3]>,
    pub ulc: Option<[u8; 3]>,
    /// 6 = unchanged, 0..=5 style
    pub ul: u8,
}

pub fn any_modify() -> AnyModify {
    let (fg, fgw) = any_color();
    let (bg, bgw) = any_color();
    let (ulc, ulcw) = any_color();
    let ul: u8 = any();
    assume(ul <= 6);
    let m = FaceModify {
        reset: any(),
        fg,
        bg,
        underline: if ul == 6 { None } else { Some(underline_style(ul)) },
        underline_color: ulc,
        bold: any_opt_bool(),
        italic: any_opt_bool(),
        blink: any_opt_bool(),
        strike: any_opt_bool(),
    };
    AnyModify { m, fg: fgw, bg: bgw, ulc: ulcw, ul }
}

/// what the modification record means, applied to `prev`
pub fn modify_semantics(a: &AnyModify, prev: SgrState) -> SgrState {
    let mut st = if a.m.reset { SgrState::reset() } else { prev };
    if a.fg.is_some() {
        st.fg = a.fg;
    }
    if a.bg.is_some() {
        st.bg = a.bg;
    }
    if a.ulc.is_some() {
        st.ul_color = a.ulc;
    }
    if a.ul != 6 {
        st.underline = a.ul;
    }
    if let Some(v) = a.m.bold {
        st.bold = v;
    }
    if let Some(v) = a.m.italic {
        st.italic = v;
    }
    if let Some(v) = a.m.blink {
        st.blink = v;
    }
    if let Some(v) = a.m.strike {
        st.strike = v;
    }
    st
}

pub fn dirty_state() -> SgrState {
    SgrState { fg: Some([1, 2, 3]), bg: Some([4, 5, 6]), ul_color: Some([7, 8, 9]), underline: 3, bold: true,
               italic: true, blink: true, reverse: true, strike: true, ..SgrState::reset() }
}

/// `FaceModify` in true colour: the emitted SGR (or nothing for the empty record), executed by
/// the reference machine from a fully-set and from the default rendition, changes exactly
/// what the record says
/// @bounds every modification record: reset x fg/bg/underline colour (any opaque or unchanged) x underline (unchanged or any of 6 styles) x bold/italic/blink/strike (unchanged/off/on)
/// @encodes encoder::TTYEncoder::encode[FaceModify], encoder::color_sgr_encode[TrueColor], encoder::Chunks
/// @tier experimental @timeout 3000
#[cfg_attr(kani, kani::proof)]
#[cfg_attr(kani, kani::unwind(22))]
pub fn c05_face_modify_truecolor() {
    let a = any_modify();
    let sink = encode(caps(ColorDepth::TrueColor, false), TerminalCommand::FaceModify(a.m));
    witness!(a.m.bold == Some(false) && a.ul == 0, "bold off and underline off");
    let empty = !a.m.reset && a.fg.is_none() && a.bg.is_none() && a.ulc.is_none() && a.ul == 6
        && a.m.bold.is_none() && a.m.italic.is_none() && a.m.blink.is_none() && a.m.strike.is_none();
    if empty {
        assert!(sink.len == 0, "C05: empty modification emitted bytes");
        return;
    }
    let s = only_csi::<NP, 3>(&sink, 0, 0, b'm');
    assert!(s.n > 0, "C05: a parameterless SGR resets the rendition");
    let from_dirty = sgr_run(&s, dirty_state());
    let from_clean = sgr_run(&s, SgrState::reset());
    assert!(!from_dirty.unknown, "C05: SGR contains parameters a VT/xterm interpreter does not define");
    assert!(from_dirty.n_indexed == 0 && from_dirty.n_basic == 0, "C05: true colour record selected a palette entry");
    assert!(from_dirty == modify_semantics(&a, dirty_state()), "C05: SGR does not perform the modification (from a set rendition)");
    assert!(from_clean == modify_semantics(&a, SgrState::reset()), "C05: SGR does not perform the modification (from the default rendition)");
}


