//! Kani proof harnesses over the real surf-n-term crate (path dependency on /repo with the
//! `verif-hooks` feature). The same bodies compile natively for counterexample replay.
#![allow(clippy::all)]
#![allow(unused_imports, dead_code)]

#[macro_use]
pub mod nd;
pub mod autogen;
#[cfg(kani)]
pub mod stubs;

pub mod c08;
