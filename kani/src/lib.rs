//! Kani proof harnesses over the real surf-n-term crate (path dependency on /repo with the
//! `verif-hooks` feature). The same bodies compile natively for counterexample replay.
#![allow(clippy::all)]
#![allow(unused_imports, dead_code)]

#[macro_use]
pub mod nd;
pub mod autogen;
#[cfg(kani)]
pub mod stubs;

pub mod c07;
pub mod c08;
pub mod c09;
pub mod c10;
pub mod c11;
pub mod c13;
pub mod c02;
pub mod c03;
pub mod c04;
pub mod c05;
pub mod c06;
pub mod c14;
pub mod c16;
