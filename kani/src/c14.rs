//! C14 — the streaming base64 codec follows RFC 4648 and round-trips under any chunking.
//!
//! Reference: RFC 4648 §4 written here from the RFC (own alphabet table, own padding rule).
use crate::nd::{any, assume};
use std::io::{Read, Write};
use surf_n_term::decoder::Base64Decoder;
use surf_n_term::encoder::Base64Encoder;

const ALPHABET: &[u8; 64] = b"ABCDEFGHIJKLMNOPQRSTUVWXYZabcdefghijklmnopqrstuvwxyz0123456789+/";

/// RFC 4648 encoding of `data[..len]` (len <= 9) into `out`, returns text length
pub fn rfc4648(data: &[u8], len: usize, out: &mut [u8; 12]) -> usize {
    let mut o = 0;
    let mut i = 0;
    while i + 3 <= len {
        let (a, b, c) = (data[i], data[i + 1], data[i + 2]);
        out[o] = ALPHABET[(a >> 2) as usize];
        out[o + 1] = ALPHABET[(((a & 3) << 4) | (b >> 4)) as usize];
        out[o + 2] = ALPHABET[(((b & 15) << 2) | (c >> 6)) as usize];
        out[o + 3] = ALPHABET[(c & 63) as usize];
        o += 4;
        i += 3;
    }
    if len - i == 1 {
        let a = data[i];
        out[o] = ALPHABET[(a >> 2) as usize];
        out[o + 1] = ALPHABET[((a & 3) << 4) as usize];
        out[o + 2] = b'=';
        out[o + 3] = b'=';
        o += 4;
    } else if len - i == 2 {
        let (a, b) = (data[i], data[i + 1]);
        out[o] = ALPHABET[(a >> 2) as usize];
        out[o + 1] = ALPHABET[(((a & 3) << 4) | (b >> 4)) as usize];
        out[o + 2] = ALPHABET[((b & 15) << 2) as usize];
        out[o + 3] = b'=';
        o += 4;
    }
    o
}

/// fixed capacity sink (a `Vec` would make every append a possible reallocation once the
/// number of writes is symbolic)
pub struct Sink {
    pub data: [u8; 16],
    pub len: usize,
}

impl Write for Sink {
    fn write(&mut self, buf: &[u8]) -> std::io::Result<usize> {
        let mut i = 0;
        while i < buf.len() {
            self.data[self.len] = buf[i];
            self.len += 1;
            i += 1;
        }
        Ok(buf.len())
    }
    fn flush(&mut self) -> std::io::Result<()> {
        Ok(())
    }
}

/// encoder: `N` symbolic bytes written as three writes cut at the concrete positions
/// `K1 <= K2 <= N` (concrete shape, symbolic values; empty writes included)
pub fn enc_case<const N: usize, const K1: usize, const K2: usize>() {
    let data: [u8; N] = any();
    let mut enc = Base64Encoder::new(Sink { data: [0; 16], len: 0 });
    enc.write_all(&data[..K1]).unwrap();
    enc.write_all(&data[K1..K2]).unwrap();
    enc.write_all(&data[K2..]).unwrap();
    let text = enc.finish().unwrap();
    let mut want = [0u8; 12];
    let want_len = rfc4648(&data, N, &mut want);
    witness!(text.len == want_len, "encoder produced the reference length");
    assert!(text.len == want_len, "C14: encoded length differs from 4*ceil(n/3)");
    let mut i = 0;
    while i < want_len {
        assert!(text.data[i] == want[i], "C14: encoder output differs from RFC 4648");
        i += 1;
    }
}

/// reader handing out the text according to a schedule of read sizes
pub struct Sched<'a> {
    pub data: &'a [u8],
    pub pos: usize,
    pub sizes: [u8; 4],
    pub calls: usize,
}

impl Read for Sched<'_> {
    /// loop free: hands out at most 4 bytes per call
    fn read(&mut self, buf: &mut [u8]) -> std::io::Result<usize> {
        let want = self.sizes[self.calls % 4] as usize;
        self.calls += 1;
        let left = self.data.len() - self.pos;
        let mut n = if want < buf.len() { want } else { buf.len() };
        if left < n {
            n = left;
        }
        if n > 0 {
            buf[0] = self.data[self.pos];
        }
        if n > 1 {
            buf[1] = self.data[self.pos + 1];
        }
        if n > 2 {
            buf[2] = self.data[self.pos + 2];
        }
        if n > 3 {
            buf[3] = self.data[self.pos + 3];
        }
        self.pos += n;
        Ok(n)
    }
}

/// Decoder from a concrete-shape representation state.
///
/// state: internal buffer holds `S - O` pending bytes (`buffer[O..S]`, symbolic);
/// the reader still holds the RFC 4648 text of `M` symbolic bytes followed by `BAD` extra
/// base64 characters (`BAD` in 1..=3 makes the total length not a multiple of four);
/// the reader returns at most `[S0, S1]` (cyclic) bytes per read; the caller reads with a
/// destination buffer of `D` bytes until `Ok(0)` or an error.
///
/// `BAD == 0`: the bytes delivered are exactly `buffer[O..S] ++ data`, no error.
/// `BAD != 0`: an error is reported before end of stream (never a silent truncation) and
///             whatever was delivered before it is a prefix of `buffer[O..S] ++ data`.
pub fn dec_case<
    const O: usize,
    const S: usize,
    const M: usize,
    const BAD: usize,
    const D: usize,
    const S0: u8,
    const S1: u8,
>() {
    let buffer: [u8; 64] = any();
    let data: [u8; M] = any();
    let mut text = [0u8; 12];
    let mut text_len = rfc4648(&data, M, &mut text);
    let extra: [u8; 3] = any();
    let mut b = 0;
    while b < BAD {
        text[text_len] = extra[b];
        text_len += 1;
        b += 1;
    }
    let reader = Sched { data: &text[..text_len], pos: 0, sizes: [S0, S1, S0, S1], calls: 0 };
    let mut dec = Base64Decoder::verif_from_parts(reader, buffer, O, S);
    // expected stream
    let mut want = [0u8; 16];
    let mut want_len = 0;
    let mut i = O;
    while i < S {
        want[want_len] = buffer[i];
        want_len += 1;
        i += 1;
    }
    let mut i = 0;
    while i < M {
        want[want_len] = data[i];
        want_len += 1;
        i += 1;
    }
    let mut out = [0u8; 32];
    let mut got = 0usize;
    let mut failed = false;
    let mut eof = false;
    let mut rounds = 0;
    let max_rounds = (S - O + M) / D + 2;
    while rounds < max_rounds {
        rounds += 1;
        match dec.read(&mut out[got..got + D]) {
            Ok(0) => {
                eof = true;
                break;
            }
            Ok(n) => {
                assert!(n <= D, "C14: read returned more than the buffer holds");
                got += n;
            }
            Err(err) => {
                std::mem::forget(err);
                failed = true;
                break;
            }
        }
    }
    assert!(got <= want_len, "C14: more bytes decoded than were encoded");
    let mut i = 0;
    while i < S - O + M {
        if i < got {
            assert!(out[i] == want[i], "C14: decoded bytes differ from the original");
        }
        i += 1;
    }
    witness!(if BAD == 0 { eof && got == want_len } else { failed }, "whole input decoded / error reported");
    if BAD == 0 {
        assert!(!failed, "C14: decoding a valid base64 text reported an error");
        assert!(eof, "C14: end of stream not reported");
        assert!(got == want_len, "C14: decoded length differs from the original");
    } else {
        assert!(!eof, "C14: text length not a multiple of four was silently truncated");
        assert!(failed, "C14: text length not a multiple of four was accepted");
    }
    std::mem::forget(dec);
}

/// arbitrary bytes never panic; whatever is returned fits the 3/4 ratio
pub fn dec_total_case<const T: usize>() {
    let text: [u8; T] = any();
    let mut dec = Base64Decoder::new(Sched { data: &text, pos: 0, sizes: [4; 4], calls: 0 });
    let mut out = [0u8; 16];
    let mut got = 0usize;
    let mut rounds = 0;
    while rounds < 2 {
        rounds += 1;
        match dec.read(&mut out[got..]) {
            Ok(0) => break,
            Ok(n) => got += n,
            Err(err) => {
                std::mem::forget(err);
                break;
            }
        }
    }
    witness!(got == T / 4 * 3, "all groups decoded");
    assert!(got <= T / 4 * 3, "C14: more bytes decoded than the text can hold");
    std::mem::forget(dec);
}
