//! C13 — nearest-colour search and quantisation kernels.
//!
//! * `KDTree::new` on `N` symbolic colours establishes the k-d invariant at every node and
//!   keeps `color_index` a permutation naming the colours;
//! * `KDTree::find` on a tree of fixed shape whose node colours are symbolic under exactly
//!   that invariant returns a colour at minimal Euclidean distance (the interface between
//!   the two harnesses is the invariant);
//! * `OcTreePath` yields the interleaved colour bits; `OcTreeInfo::join` is a monoid.
use crate::nd::{any, assume};
use surf_n_term::image::verif_hooks as ih;
use surf_n_term::image::KDTree;
use surf_n_term::RGBA;

/// channel values explored: 0..=CH (the solver cost grows quickly with the width)
pub fn channel(max: u8) -> u8 {
    let v: u8 = any();
    assume(v <= max);
    v
}

pub fn color(max: u8) -> [u8; 3] {
    [channel(max), channel(max), channel(max)]
}

fn dist(a: [u8; 3], b: [u8; 3]) -> i32 {
    let d = |x: u8, y: u8| (x as i32 - y as i32) * (x as i32 - y as i32);
    d(a[0], b[0]) + d(a[1], b[1]) + d(a[2], b[2])
}

/// build from `N` symbolic colours; check structure
pub fn build_case<const N: usize, const CH: u8>() {
    let mut colors = [[0u8; 3]; N];
    let mut rgba = Vec::with_capacity(N);
    let mut i = 0;
    while i < N {
        colors[i] = color(CH);
        rgba.push(RGBA::new(colors[i][0], colors[i][1], colors[i][2], 255));
        i += 1;
    }
    let tree = KDTree::new(&rgba);
    assert!(tree.verif_len() == N, "C13: tree does not hold every palette colour");
    // color_index is a permutation and names the node's colour
    let mut seen = [false; N];
    let mut k = 0;
    while k < N {
        let (c, index, dim, left, right) = tree.verif_node(k);
        assert!(index < N && !seen[index], "C13: palette index missing or duplicated in the tree");
        seen[index] = true;
        assert!(c == colors[index], "C13: node colour differs from the palette colour it names");
        assert!(dim < 3);
        // k-d invariant for the direct children (subtrees of at most one level for N <= 3)
        if let Some(l) = left {
            assert!(l < k, "C13: child stored after its parent");
            let (lc, _, _, ll, lr) = tree.verif_node(l);
            assert!(lc[dim] <= c[dim], "C13: left subtree holds a larger coordinate");
            if let Some(x) = ll {
                assert!(tree.verif_node(x).0[dim] <= c[dim], "C13: left subtree holds a larger coordinate");
            }
            if let Some(x) = lr {
                assert!(tree.verif_node(x).0[dim] <= c[dim], "C13: left subtree holds a larger coordinate");
            }
        }
        if let Some(r) = right {
            assert!(r < k, "C13: child stored after its parent");
            let (rc, _, _, rl, rr) = tree.verif_node(r);
            assert!(rc[dim] >= c[dim], "C13: right subtree holds a smaller coordinate");
            if let Some(x) = rl {
                assert!(tree.verif_node(x).0[dim] >= c[dim], "C13: right subtree holds a smaller coordinate");
            }
            if let Some(x) = rr {
                assert!(tree.verif_node(x).0[dim] >= c[dim], "C13: right subtree holds a smaller coordinate");
            }
        }
        k += 1;
    }
    witness!(N < 2 || colors[0] != colors[1], "distinct colours");
    std::mem::forget(tree);
    std::mem::forget(rgba);
}

/// shapes (root is the last node, dims cycle r,g,b from the root):
/// 1: single node; 2: root + left child; 3: root + left + right;
/// 4: root(left: node with left child, right: leaf)  [what `new` builds for 4 colours]
pub fn find_case<const SHAPE: usize, const CH: u8>() {
    let n = SHAPE;
    // no harness-side loops: the unwinding bound also bounds the recursion of `find_rec`,
    // whose child indices live on the heap and are not constant for the symbolic executor
    let zero = [0u8; 3];
    let c = [
        color(CH),
        if n > 1 { color(CH) } else { zero },
        if n > 2 { color(CH) } else { zero },
        if n > 3 { color(CH) } else { zero },
    ];
    let nodes: Vec<([u8; 3], usize, usize, Option<usize>, Option<usize>)> = match SHAPE {
        1 => vec![(c[0], 0, 0, None, None)],
        2 => {
            // new(): sorted by red, index = 1 -> root is the larger, left child the smaller
            assume(c[0][0] <= c[1][0]);
            vec![(c[0], 0, 1, None, None), (c[1], 1, 0, Some(0), None)]
        }
        3 => {
            assume(c[0][0] <= c[2][0] && c[1][0] >= c[2][0]);
            vec![(c[0], 0, 1, None, None), (c[1], 1, 1, None, None), (c[2], 2, 0, Some(0), Some(1))]
        }
        _ => {
            // root c[3] splits red: left subtree {c[0] child of c[1]} <= root <= right leaf c[2];
            // c[1] splits green with left child c[0]
            assume(c[0][0] <= c[3][0] && c[1][0] <= c[3][0] && c[2][0] >= c[3][0]);
            assume(c[0][1] <= c[1][1]);
            vec![(c[0], 0, 2, None, None), (c[1], 1, 1, Some(0), None), (c[2], 2, 1, None, None),
                 (c[3], 3, 0, Some(1), Some(2))]
        }
    };
    let tree = KDTree::verif_from_raw(nodes);
    let q = color(CH);
    let (index, found) = tree.find(RGBA::new(q[0], q[1], q[2], 255));
    use surf_n_term::Color;
    let f = found.to_rgb();
    assert!(index < n && f == c[index], "C13: returned index does not name the returned colour");
    let best = dist(q, f);
    witness!(best > 0, "query is not a palette colour");
    assert!(best <= dist(q, c[0]), "C13: a palette colour is closer than the one returned");
    if n > 1 {
        assert!(best <= dist(q, c[1]), "C13: a palette colour is closer than the one returned");
    }
    if n > 2 {
        assert!(best <= dist(q, c[2]), "C13: a palette colour is closer than the one returned");
    }
    if n > 3 {
        assert!(best <= dist(q, c[3]), "C13: a palette colour is closer than the one returned");
    }
    std::mem::forget(tree);
}

/// octree path: eight child indices made of the interleaved bits of r, g, b (msb first)
/// @bounds every colour
/// @encodes image::OcTreePath::new, image::OcTreePath::next
#[cfg_attr(kani, kani::proof)]
#[cfg_attr(kani, kani::unwind(10))]
pub fn c13_octree_path() {
    let c: [u8; 3] = any();
    let path = ih::octree_path(RGBA::new(c[0], c[1], c[2], 255));
    let mut level = 0;
    while level < 8 {
        let bit = |v: u8| ((v >> (7 - level)) & 1) as usize;
        assert!(path[level] < 8, "C13: octree child index out of range");
        assert!(path[level] == (bit(c[0]) << 2) | (bit(c[1]) << 1) | bit(c[2]), "C13: octree path does not follow the colour bits");
        level += 1;
    }
    witness!(path[0] == 7, "white-ish colour");
}

/// the bookkeeping monoid of the octree
/// @bounds counts <= 2^40
/// @encodes image::OcTreeInfo::join
#[cfg_attr(kani, kani::proof)]
pub fn c13_octree_info_join() {
    let any_info = || {
        let (l, c): (usize, usize) = (any(), any());
        assume(l <= 1 << 40 && c <= 1 << 40);
        let m: usize = any();
        assume(m <= 1 << 40);
        (l, c, if any() { Some(m) } else { None })
    };
    let (a, b, c) = (any_info(), any_info(), any_info());
    let unit = (0, 0, None);
    assert!(ih::octree_info_join(a, unit) == a && ih::octree_info_join(unit, a) == a, "C13: empty info is not a unit");
    assert!(ih::octree_info_join(ih::octree_info_join(a, b), c) == ih::octree_info_join(a, ih::octree_info_join(b, c)),
            "C13: info join is not associative");
    let ab = ih::octree_info_join(a, b);
    witness!(ab.2.is_some(), "minimum present");
    assert!(ab.0 == a.0 + b.0 && ab.1 == a.1 + b.1, "C13: counts not added");
    match (a.2, b.2, ab.2) {
        (Some(x), Some(y), Some(m)) => assert!(m == if x < y { x } else { y }),
        (Some(x), None, Some(m)) | (None, Some(x), Some(m)) => assert!(m == x),
        (None, None, None) => {}
        _ => assert!(false, "C13: minimum lost"),
    }
}
