//! Native replay of a Kani counterexample against the real crate.
//!
//! usage: replay <harness> <values-file>
//! values-file: one line per `kani::any()` call, comma separated decimal bytes
//! exit: 0 harness ran to completion (counterexample does NOT reproduce)
//!       1 harness panicked (assertion / overflow / index ...): reproduced
//!       3 an assumption did not hold or values were exhausted (encoding mismatch)
//!       4 usage / unknown harness
#[cfg(kani)]
fn main() {}

#[cfg(not(kani))]
fn main() {
    use std::panic;
    let args: Vec<String> = std::env::args().collect();
    if args.len() == 2 && args[1] == "--list" {
        for (name, _) in vk::autogen::registry::HARNESSES {
            println!("{name}");
        }
        return;
    }
    if args.len() != 3 {
        eprintln!("usage: replay <harness> <values-file> | --list");
        std::process::exit(4);
    }
    let Some((_, func)) = vk::autogen::registry::HARNESSES
        .iter()
        .find(|(name, _)| *name == args[1])
    else {
        eprintln!("unknown harness {}", args[1]);
        std::process::exit(4);
    };
    let text = std::fs::read_to_string(&args[2]).expect("values file");
    let mut values: Vec<Vec<u8>> = Vec::new();
    for line in text.lines() {
        let line = line.trim();
        if line.is_empty() || line.starts_with('#') {
            continue;
        }
        values.push(
            line.split(',')
                .filter(|s| !s.trim().is_empty())
                .map(|s| s.trim().parse::<u8>().expect("byte"))
                .collect(),
        );
    }
    vk::nd::native::install(&values);
    let result = panic::catch_unwind(|| func());
    match result {
        Ok(()) => {
            if vk::nd::native::exhausted() {
                println!("REPLAY inconclusive: values exhausted");
                std::process::exit(3);
            }
            println!("REPLAY pass: harness completed without failure");
            std::process::exit(0);
        }
        Err(payload) => {
            if payload
                .downcast_ref::<vk::nd::native::AssumptionViolated>()
                .is_some()
            {
                println!("REPLAY inconclusive: assumption violated");
                std::process::exit(3);
            }
            let msg = payload
                .downcast_ref::<String>()
                .cloned()
                .or_else(|| payload.downcast_ref::<&str>().map(|s| s.to_string()))
                .unwrap_or_default();
            println!("REPLAY fail: {msg}");
            std::process::exit(1);
        }
    }
}
