//! C16 — the byte queue delivers in order, exactly once; its length is what can be read.
//!
//! One step from an arbitrary valid representation state (refinement to the byte sequence
//! `R` = concatenation of the chunks minus the consumed prefix of the front chunk).
//! Shapes (number of chunks, chunk lengths, offset) are concrete per instance, bytes symbolic.
use crate::nd::{any, assume};
use std::collections::VecDeque;
use std::io::{Read, Write};
use surf_n_term::common::IOQueue;

pub const CAP: usize = 20;
pub const MAXC: usize = 5;
pub const MAXL: usize = 4;

/// readable byte sequence of the representation
pub struct Bytes {
    pub data: [u8; CAP],
    pub len: usize,
}

/// One pass over the representation: checks the representation invariant, that `len()` is
/// the number of readable bytes and that `as_slice()` is a prefix of them; returns the
/// readable byte sequence `R`.
pub fn observe(q: &IOQueue) -> Bytes {
    let (chunks, offset, length) = q.verif_parts();
    let mut out = Bytes { data: [0; CAP], len: 0 };
    assert!(chunks.len() <= MAXC, "C16: more chunks than any operation can produce from the shape");
    let mut total = 0;
    let mut front = 0;
    let mut skip = offset;
    // fixed trip counts, guarded by the real lengths (keeps symbolic execution linear)
    let mut c = 0;
    for chunk in chunks.iter().take(MAXC) {
        let n = chunk.len();
        assert!(n <= MAXL);
        if c == 0 {
            front = n;
        }
        total += n;
        let mut i = 0;
        while i < MAXL {
            if i < n {
                if skip > 0 {
                    skip -= 1;
                } else {
                    out.data[out.len] = chunk[i];
                    out.len += 1;
                }
            }
            i += 1;
        }
        c += 1;
    }
    assert!(offset == 0 || offset < front, "C16: offset outside the front chunk");
    assert!(length + offset == total, "C16: len() differs from the number of readable bytes");
    assert!(q.len() == out.len, "C16: len() differs from the number of readable bytes");
    let s = q.as_slice();
    assert!(s.len() + offset == front, "C16: as_slice is not the rest of the front chunk");
    let mut i = 0;
    while i < MAXL {
        if i < s.len() {
            assert!(s[i] == out.data[i], "C16: as_slice is not a prefix of the queued bytes");
        }
        i += 1;
    }
    if q.is_empty() {
        assert!(out.len == 0, "C16: queue reports empty while bytes are queued");
    }
    out
}

pub fn check_inv(q: &IOQueue, _what: &str) -> Bytes {
    observe(q)
}

pub fn readable(q: &IOQueue) -> Bytes {
    observe(q)
}

pub struct Shape<const K: usize, const L0: usize, const L1: usize, const L2: usize, const OFF: usize> {
    pub bytes: [[u8; 2]; 3],
}

impl<const K: usize, const L0: usize, const L1: usize, const L2: usize, const OFF: usize>
    Shape<K, L0, L1, L2, OFF>
{
    pub fn build(&self) -> IOQueue {
        let lens = [L0, L1, L2];
        let mut chunks: VecDeque<Vec<u8>> = VecDeque::with_capacity(8);
        let mut total = 0;
        let mut c = 0;
        while c < K {
            let mut v = Vec::with_capacity(8);
            let mut i = 0;
            while i < lens[c] {
                v.push(self.bytes[c][i]);
                i += 1;
            }
            total += lens[c];
            chunks.push_back(v);
            c += 1;
        }
        IOQueue::verif_from_parts(chunks, OFF, total - OFF)
    }
}

fn expect_bytes(got: &Bytes, want: &Bytes, from: usize, msg_len: &str) {
    assert!(got.len + from == want.len, "C16: wrong number of bytes left in the queue");
    let mut i = 0;
    while i < CAP {
        if i < got.len {
            assert!(got.data[i] == want.data[from + i], "C16: queued bytes lost, duplicated or reordered");
        }
        i += 1;
    }
    let _ = msg_len;
}

pub const OP_WRITE: usize = 0;
pub const OP_FLUSH: usize = 1;
pub const OP_CONSUME: usize = 2;
pub const OP_CONSUME_WITH: usize = 3;
pub const OP_CONSUME_ERR: usize = 4;
pub const OP_READ: usize = 5;
pub const OP_DROP: usize = 6;

/// one operation (`OP`, `ARG`) from a (concrete shape, symbolic bytes) state
pub fn step_case<
    const K: usize,
    const L0: usize,
    const L1: usize,
    const L2: usize,
    const OFF: usize,
    const OP: usize,
    const ARG: usize,
>() {
    let shape = Shape::<K, L0, L1, L2, OFF> { bytes: [any(), any(), any()] };
    let mut q = shape.build();
    let r0 = observe(&q);
    let front_rem = q.as_slice().len();
    assert!(front_rem == if K > 0 { L0 - OFF } else { 0 });

    if OP == OP_WRITE {
        // write ARG (1 or 2) symbolic bytes
        let w: [u8; 2] = any();
        let n = q.write(&w[..ARG]).unwrap();
        assert!(n == ARG, "C16: write accepted fewer bytes than given");
        let r = observe(&q);
        assert!(r.len == r0.len + ARG, "C16: written bytes not appended at the end");
        let mut i = 0;
        while i < ARG {
            assert!(r.data[r0.len + i] == w[i], "C16: written bytes not appended at the end");
            i += 1;
        }
        expect_bytes(&Bytes { data: r.data, len: r0.len }, &r0, 0, "");
    }
    if OP == OP_FLUSH {
        // flush (ARG times) keeps the bytes
        let mut i = 0;
        while i < ARG {
            q.flush().unwrap();
            expect_bytes(&observe(&q), &r0, 0, "");
            i += 1;
        }
    }
    if OP == OP_CONSUME {
        // the tty accepted ARG <= |as_slice()| bytes
        q.consume(ARG);
        expect_bytes(&observe(&q), &r0, ARG, "");
    }
    if OP == OP_CONSUME_WITH {
        let res: Result<usize, ()> = q.consume_with(|slice| {
            assert!(slice.len() == front_rem);
            Ok(ARG)
        });
        assert!(res == Ok(ARG));
        expect_bytes(&observe(&q), &r0, ARG, "");
    }
    if OP == OP_CONSUME_ERR {
        // EAGAIN / error from the tty: nothing is consumed
        let res: Result<usize, ()> = q.consume_with(|_| Err(()));
        assert!(res.is_err());
        expect_bytes(&observe(&q), &r0, 0, "");
    }
    if OP == OP_READ {
        // read into a buffer of ARG bytes
        let mut buf = [0u8; 4];
        let n = q.read(&mut buf[..ARG]).unwrap();
        let want = if ARG < front_rem { ARG } else { front_rem };
        assert!(n == want, "C16: read returned a wrong count");
        let mut i = 0;
        while i < 4 {
            if i < n {
                assert!(buf[i] == r0.data[i], "C16: read returned wrong bytes");
            }
            i += 1;
        }
        expect_bytes(&observe(&q), &r0, n, "");
    }
    if OP == OP_DROP {
        // dropping pending frames keeps exactly the chunk in transmission
        q.clear_but_last();
        let r = observe(&q);
        assert!(r.len == front_rem, "C16: drop did not keep exactly the chunk in transmission");
        expect_bytes(&r, &Bytes { data: r0.data, len: front_rem }, 0, "");
        assert!(q.chunks_count() <= 1);
    }
    witness!(true, "end of harness reached");
    std::mem::forget(q);
}

/// Public-API history reaching the `[2, 1]`, offset 1 state and dropping frames: the reported
/// length must equal what can still be read (bytes symbolic, history concrete).
/// @tier experimental @timeout 3000
/// @bounds history write(2) flush write(1) consume(1) clear_but_last read*, all byte values
/// @encodes common::IOQueue::write, common::IOQueue::flush, common::IOQueue::consume, common::IOQueue::clear_but_last, common::IOQueue::read
#[cfg_attr(kani, kani::proof)]
#[cfg_attr(kani, kani::unwind(8))]
pub fn c16_history_drop() {
    let b: [u8; 3] = any();
    let mut q = IOQueue::new();
    q.write(&b[..2]).unwrap();
    q.flush().unwrap();
    q.write(&b[2..]).unwrap();
    q.consume(1);
    q.clear_but_last();
    let claimed = q.len();
    let mut buf = [0u8; 4];
    let mut total = 0;
    let mut rounds = 0;
    while rounds < 3 {
        let n = q.read(&mut buf[total..]).unwrap();
        total += n;
        rounds += 1;
    }
    witness!(total == 1, "one byte left after the drop");
    assert!(total == 1 && buf[0] == b[1], "C16: drop lost or kept the wrong bytes");
    assert!(claimed == total, "C16: len() differs from the number of readable bytes");
    std::mem::forget(q);
}
