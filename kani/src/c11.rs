//! C11 — kitty graphics output: identifiers, erase/draw pairing, payload integrity (1x1).
use crate::c05::hex_val;
use crate::nd::{any, assume};
use std::io::Write;
use surf_n_term::image::verif_hooks as ih;
use surf_n_term::{Image, ImageHandler, KittyImageHandler, Position, RGBA, Size, SurfaceOwned};

/// placement identifiers: a bijection between positions and ids on the supported range
/// @bounds every position with row, col < 65536; every pair of such positions
/// @encodes image::kitty_placement_id, image::kitty_placement_to_pos
#[cfg_attr(kani, kani::proof)]
pub fn c11_placement_id() {
    let p = Position::new(any(), any());
    let q = Position::new(any(), any());
    assume(p.row < 65536 && p.col < 65536 && q.row < 65536 && q.col < 65536);
    let (ip, iq) = (ih::kitty_placement_id(p), ih::kitty_placement_id(q));
    witness!(ip == ih::KITTY_MAX_ID, "largest identifier");
    assert!(ip <= ih::KITTY_MAX_ID && iq <= ih::KITTY_MAX_ID, "C11: placement id exceeds the protocol's 32 bit range");
    assert!(ih::kitty_placement_to_pos(ip) == p, "C11: placement id does not map back to its position");
    assert!((ip == iq) == (p == q), "C11: two positions share a placement id");
}

pub const CAP: usize = 160;

/// infallible sink (see c05::Sink for why write_all / write_fmt are overridden)
pub struct Out {
    pub data: [u8; CAP],
    pub len: usize,
}

impl Out {
    pub fn new() -> Self {
        Out { data: [0; CAP], len: 0 }
    }
    fn put(&mut self, buf: &[u8]) {
        // one memcpy: a byte loop would be unwound to the global bound for every write whose
        // length is symbolic (formatted numbers)
        let n = buf.len();
        self.data[self.len..self.len + n].copy_from_slice(buf);
        self.len += n;
    }
}

struct FmtOut<'a>(&'a mut Out);

impl std::fmt::Write for FmtOut<'_> {
    fn write_str(&mut self, s: &str) -> std::fmt::Result {
        self.0.put(s.as_bytes());
        Ok(())
    }
}

impl Write for Out {
    fn write(&mut self, buf: &[u8]) -> std::io::Result<usize> {
        self.put(buf);
        Ok(buf.len())
    }
    fn write_all(&mut self, buf: &[u8]) -> std::io::Result<()> {
        self.put(buf);
        Ok(())
    }
    fn write_fmt(&mut self, args: std::fmt::Arguments<'_>) -> std::io::Result<()> {
        let _ = std::fmt::write(&mut FmtOut(self), args);
        Ok(())
    }
    fn flush(&mut self) -> std::io::Result<()> {
        Ok(())
    }
}

/// cursor over the emitted bytes
pub struct Cur<'a> {
    pub buf: &'a [u8; CAP],
    pub len: usize,
    pub pos: usize,
    pub ok: bool,
}

impl<'a> Cur<'a> {
    pub fn new(out: &'a Out, from: usize) -> Self {
        Cur { buf: &out.data, len: out.len, pos: from, ok: true }
    }
    pub fn peek(&self) -> u8 {
        if self.pos < self.len { self.buf[self.pos] } else { 0 }
    }
    pub fn lit(&mut self, s: &[u8]) {
        let mut i = 0;
        while i < s.len() {
            if self.pos < self.len && self.buf[self.pos] == s[i] {
                self.pos += 1;
            } else {
                self.ok = false;
            }
            i += 1;
        }
    }
    /// decimal number of at most 10 digits
    pub fn number(&mut self) -> u64 {
        let mut v: u64 = 0;
        let mut had = false;
        let mut i = 0;
        while i < 10 {
            let b = self.peek();
            if self.pos < self.len && b >= b'0' && b <= b'9' {
                v = v * 10 + (b - b'0') as u64;
                self.pos += 1;
                had = true;
            }
            i += 1;
        }
        if !had {
            self.ok = false;
        }
        v
    }
}

pub fn pixel_image(px: [u8; 4]) -> Image {
    Image::from(SurfaceOwned::new_with(Size::new(1, 1), |_| RGBA::new(px[0], px[1], px[2], px[3])))
}

/// erase addresses the image and the placement of the position: `APC G a=d,d=i,i=<id>,p=<pid> ST`
pub fn erase_case(max_row: usize, max_col: usize) {
    // fixed pixel: a symbolic pixel makes the FNV hash, its `% (2^32-1)` and the decimal
    // formatting one 64 bit multiply/divide chain that the SAT back end does not finish
    let img = pixel_image([17, 34, 51, 255]);
    let pos = Position::new(any(), any());
    assume(pos.row <= max_row && pos.col <= max_col);
    let with_pos: bool = any();
    let mut handler = KittyImageHandler::new();
    let mut out = Out::new();
    let res = handler.erase(&mut out, &img, if with_pos { Some(pos) } else { None });
    assert!(res.is_ok(), "C11: erase failed");
    let mut cur = Cur::new(&out, 0);
    cur.lit(b"\x1b_Ga=d,d=i,i=");
    let id = cur.number();
    witness!(with_pos, "erase of one placement");
    assert!(id == ih::kitty_image_id(&img), "C11: erase addresses another image");
    if with_pos {
        cur.lit(b",p=");
        let pid = cur.number();
        assert!(pid == ih::kitty_placement_id(pos), "C11: erase addresses another placement than draw creates at that position");
    }
    cur.lit(b"\x1b\\");
    assert!(cur.ok && cur.pos == out.len, "C11: erase is not one well formed graphics command");
    std::mem::forget(res);
    std::mem::forget(handler);
    std::mem::forget(img);
}

/// @timeout 900
/// @bounds 1x1 image (fixed pixel); positions with row, col <= 9, and the position-less form
/// @encodes image::KittyImageHandler::erase, image::kitty_image_id, image::kitty_placement_id
#[cfg_attr(kani, kani::proof)]
#[cfg_attr(kani, kani::unwind(14))]
#[cfg_attr(kani, kani::stub(tracing_core::callsite::DefaultCallsite::interest, crate::stubs::interest_never))]
#[cfg_attr(kani, kani::stub(tracing::__macro_support::__is_enabled, crate::stubs::is_enabled_false))]
#[cfg_attr(kani, kani::stub(tracing_core::event::Event::dispatch, crate::stubs::dispatch_nothing))]
#[cfg_attr(kani, kani::stub(tracing::span::Span::new, crate::stubs::span_none))]
#[cfg_attr(kani, kani::stub(std::hash::RandomState::new, crate::stubs::random_state_fixed))]
pub fn c11_erase_small() {
    erase_case(9, 9)
}

/// @tier experimental @timeout 3000
/// @bounds 1x1 image (fixed pixel); any position with row, col < 65536, and the position-less form
/// @encodes image::KittyImageHandler::erase, image::kitty_image_id, image::kitty_placement_id
#[cfg_attr(kani, kani::proof)]
#[cfg_attr(kani, kani::unwind(14))]
#[cfg_attr(kani, kani::stub(tracing_core::callsite::DefaultCallsite::interest, crate::stubs::interest_never))]
#[cfg_attr(kani, kani::stub(tracing::__macro_support::__is_enabled, crate::stubs::is_enabled_false))]
#[cfg_attr(kani, kani::stub(tracing_core::event::Event::dispatch, crate::stubs::dispatch_nothing))]
#[cfg_attr(kani, kani::stub(tracing::span::Span::new, crate::stubs::span_none))]
#[cfg_attr(kani, kani::stub(std::hash::RandomState::new, crate::stubs::random_state_fixed))]
pub fn c11_erase() {
    erase_case(65535, 65535)
}

fn b64(c: u8) -> u32 {
    match c {
        b'A'..=b'Z' => (c - b'A') as u32,
        b'a'..=b'z' => (c - b'a') as u32 + 26,
        b'0'..=b'9' => (c - b'0') as u32 + 52,
        b'+' => 62,
        b'/' => 63,
        _ => 99,
    }
}

/// draw of a 1x1 image: transmit (once) + placement, then a second draw elsewhere places only
/// @tier experimental @timeout 3000
/// @bounds 1x1 image with any pixel; two positions with row, col < 65536
/// @encodes image::KittyImageHandler::draw, encoder::Base64Encoder, image::kitty_image_id, image::kitty_placement_id
#[cfg_attr(kani, kani::proof)]
#[cfg_attr(kani, kani::unwind(14))]
#[cfg_attr(kani, kani::stub(tracing_core::callsite::DefaultCallsite::interest, crate::stubs::interest_never))]
#[cfg_attr(kani, kani::stub(tracing::__macro_support::__is_enabled, crate::stubs::is_enabled_false))]
#[cfg_attr(kani, kani::stub(tracing_core::event::Event::dispatch, crate::stubs::dispatch_nothing))]
#[cfg_attr(kani, kani::stub(tracing::span::Span::new, crate::stubs::span_none))]
#[cfg_attr(kani, kani::stub(std::hash::RandomState::new, crate::stubs::random_state_fixed))]
pub fn c11_draw_1x1() {
    let px: [u8; 4] = any();
    let img = pixel_image(px);
    let pos = Position::new(any(), any());
    assume(pos.row < 65536 && pos.col < 65536);
    let mut handler = KittyImageHandler::new();
    let mut out = Out::new();
    let res = handler.draw(&mut out, &img, pos);
    assert!(res.is_ok(), "C11: draw failed");
    std::mem::forget(res);
    let mut cur = Cur::new(&out, 0);
    cur.lit(b"\x1b_Ga=t,f=32,i=");
    let id = cur.number();
    cur.lit(b",v=");
    let v = cur.number();
    cur.lit(b",s=");
    let s = cur.number();
    cur.lit(b",m=0,q=0;");
    assert!(cur.ok && v == 1 && s == 1, "C11: transmit command does not declare the image size");
    assert!(id == ih::kitty_image_id(&img), "C11: image transmitted under another id");
    // payload: base64 of the RGBA bytes (8 characters, one pixel)
    let mut sextets = [0u32; 8];
    let mut i = 0;
    while i < 8 {
        sextets[i] = b64(cur.peek());
        cur.pos += 1;
        i += 1;
    }
    let b0 = (sextets[0] << 2) | (sextets[1] >> 4);
    let b1 = ((sextets[1] & 15) << 4) | (sextets[2] >> 2);
    let b2 = ((sextets[2] & 3) << 6) | sextets[3];
    let b3 = (sextets[4] << 2) | (sextets[5] >> 4);
    assert!(sextets[0] < 64 && sextets[1] < 64 && sextets[2] < 64 && sextets[3] < 64 && sextets[4] < 64 && sextets[5] < 64,
            "C11: payload is not base64");
    assert!(b0 == px[0] as u32 && b1 == px[1] as u32 && b2 == px[2] as u32 && b3 == px[3] as u32, "C11: payload is not the image's RGBA pixels");
    assert!(cur.buf[cur.pos - 2] == b'=' && cur.buf[cur.pos - 1] == b'=', "C11: payload padding wrong");
    cur.lit(b"\x1b\\");
    cur.lit(b"\x1b_Ga=p,i=");
    let id2 = cur.number();
    cur.lit(b",C=1,p=");
    let pid = cur.number();
    cur.lit(b",q=0;\x1b\\");
    witness!(cur.ok, "transmit and placement parsed");
    assert!(cur.ok && cur.pos == out.len, "C11: draw is not transmit + placement");
    assert!(id2 == id, "C11: placement refers to another image than the transmitted one");
    assert!(pid == ih::kitty_placement_id(pos), "C11: placement id differs from the position's id");
    std::mem::forget(handler);
    std::mem::forget(img);
}
