//! C07 — surface views are exact, non-aliasing windows onto their parent surface.
//!
//! An owned `H x W` surface (concrete size) holds its own row-major index in every cell.
//! A chain `[transpose] view(rows, cols) [transpose] view(rows2, cols2)` with symbolic signed
//! bounds is applied to the real surface and to a plain index-matrix model; every access
//! operation through the resulting view is compared with the model.
use crate::c08::{reference, Sel};
use crate::nd::{any, assume};
use surf_n_term::surface::ViewBounds;
use surf_n_term::{Position, Size, Surface, SurfaceMut, SurfaceOwned};

pub const MAXD: usize = 4;

/// model: `h x w` window, `m[i][j]` = row-major index of the base cell shown at (i, j)
#[derive(Clone, Copy)]
pub struct Model {
    pub h: usize,
    pub w: usize,
    pub m: [[u8; MAXD]; MAXD],
}

impl Model {
    pub fn base(h: usize, w: usize) -> Self {
        let mut m = [[0u8; MAXD]; MAXD];
        let mut i = 0;
        while i < MAXD {
            let mut j = 0;
            while j < MAXD {
                if i < h && j < w {
                    m[i][j] = (i * w + j) as u8;
                }
                j += 1;
            }
            i += 1;
        }
        Model { h, w, m }
    }

    pub fn transpose(&self) -> Self {
        let mut m = [[0u8; MAXD]; MAXD];
        let mut i = 0;
        while i < MAXD {
            let mut j = 0;
            while j < MAXD {
                m[i][j] = self.m[j][i];
                j += 1;
            }
            i += 1;
        }
        Model { h: self.w, w: self.h, m }
    }

    /// the window that the selectors pick on a plain matrix (python/numpy slicing)
    pub fn view(&self, rows: Sel, cols: Sel) -> Self {
        let r = reference(rows, self.h)[0];
        let c = reference(cols, self.w)[0];
        match (r, c) {
            (Some((r0, r1)), Some((c0, c1))) => {
                let mut m = [[0u8; MAXD]; MAXD];
                let mut i = 0;
                while i < MAXD {
                    let mut j = 0;
                    while j < MAXD {
                        if r0 + i < r1 && c0 + j < c1 {
                            m[i][j] = self.m[r0 + i][c0 + j];
                        }
                        j += 1;
                    }
                    i += 1;
                }
                Model { h: r1 - r0, w: c1 - c0, m }
            }
            _ => Model { h: 0, w: 0, m: [[0u8; MAXD]; MAXD] },
        }
    }

    pub fn contains(&self, idx: u8) -> bool {
        let mut found = false;
        let mut i = 0;
        while i < MAXD {
            let mut j = 0;
            while j < MAXD {
                if i < self.h && j < self.w && self.m[i][j] == idx {
                    found = true;
                }
                j += 1;
            }
            i += 1;
        }
        found
    }
}

pub fn base_surface(h: usize, w: usize) -> SurfaceOwned<u8> {
    SurfaceOwned::new_with(Size { height: h, width: w }, |pos| (pos.row * w + pos.col) as u8)
}

/// symbolic bound in -(n+3)..=(n+3): everything the clamping distinguishes
pub fn bound(n: usize) -> i8 {
    let v: i8 = any();
    assume(v as i32 >= -(n as i32) - 3 && v as i32 <= n as i32 + 3);
    v
}

/// read access through a view against the model: size, row-major iteration, indexing
pub fn check_read<S: Surface<Item = u8>>(view: &S, model: &Model) {
    assert!(view.height() == model.h && view.width() == model.w, "C07: view has a wrong size");
    // iteration: exactly h*w items, row-major, equal to the model
    let mut iter = view.iter();
    let mut i = 0;
    while i < MAXD {
        let mut j = 0;
        while j < MAXD {
            if i < model.h && j < model.w {
                match iter.next() {
                    Some(v) => assert!(*v == model.m[i][j], "C07: iteration yields a cell outside the window or out of order"),
                    None => assert!(false, "C07: iteration yields fewer than height*width items"),
                }
            }
            j += 1;
        }
        i += 1;
    }
    assert!(iter.next().is_none(), "C07: iteration yields more than height*width items");
    // indexing: present exactly inside the window (a band of one around it is probed)
    let mut i = 0;
    while i <= MAXD {
        let mut j = 0;
        while j <= MAXD {
            let got = view.get(Position::new(i, j));
            if i < model.h && j < model.w {
                assert!(got == Some(&model.m[i][j]), "C07: indexing returns a wrong cell");
            } else {
                assert!(got.is_none(), "C07: position outside the window reported present");
            }
            j += 1;
        }
        i += 1;
    }
}

/// after a mutation through a view: every base cell outside the window is unchanged, every
/// cell inside holds `expect(model position)`
pub fn check_base_after(
    base: &SurfaceOwned<u8>,
    h: usize,
    w: usize,
    model: &Model,
    inside: impl Fn(usize, usize, u8) -> u8,
) {
    let mut r = 0;
    while r < MAXD {
        let mut c = 0;
        while c < MAXD {
            if r < h && c < w {
                let idx = (r * w + c) as u8;
                let cell = *base.get(Position::new(r, c)).unwrap();
                if !model.contains(idx) {
                    assert!(cell == idx, "C07: mutation through a view changed a cell outside the window");
                }
            }
            c += 1;
        }
        r += 1;
    }
    let mut i = 0;
    while i < MAXD {
        let mut j = 0;
        while j < MAXD {
            if i < model.h && j < model.w {
                let idx = model.m[i][j];
                let (r, c) = (idx as usize / w, idx as usize % w);
                let cell = *base.get(Position::new(r, c)).unwrap();
                assert!(cell == inside(i, j, idx), "C07: mutation through a view missed or mis-wrote a window cell");
            }
            j += 1;
        }
        i += 1;
    }
}

pub const MARK: u8 = 100;

/// An inclusive end below `-n` is the one case where the statement leaves the clamping open
/// (C08 accepts both answers); the chains here stay away from it.
pub fn incl_in_range(kind: usize, end: i8, n: usize) {
    if kind == 1 {
        assume(end as i32 >= -(n as i32));
    }
}

/// selectors: kind 0 `a..b`, 1 `a..=b`, 2 `a..`, 3 `..b`, 4 index `a`, 5 `..`
#[macro_export]
macro_rules! c07_sel {
    (0, $a:expr, $b:expr) => { (($a..$b), $crate::c08::Sel::Range($a as i128, $b as i128)) };
    (1, $a:expr, $b:expr) => { (($a..=$b), $crate::c08::Sel::Incl($a as i128, $b as i128)) };
    (2, $a:expr, $b:expr) => { (($a..), $crate::c08::Sel::From($a as i128)) };
    (3, $a:expr, $b:expr) => { ((..$b), $crate::c08::Sel::To($b as i128)) };
    (4, $a:expr, $b:expr) => { ($a, $crate::c08::Sel::Index($a as i128)) };
    (5, $a:expr, $b:expr) => { ((..), $crate::c08::Sel::Full) };
}

/// immutable chain: [transpose] view [transpose] view, then every read access
#[macro_export]
macro_rules! c07_read_case {
    ($h:expr, $w:expr, $t0:expr, $t1:expr, $rk:tt, $ck:tt, $rk2:tt, $ck2:tt) => {{
        use surf_n_term::{Surface, SurfaceMut};
        use $crate::c07::*;
        let (h, w): (usize, usize) = ($h, $w);
        let base = base_surface(h, w);
        let mut model = Model::base(h, w);
        let (hh, ww) = if $t0 { (w, h) } else { (h, w) };
        let (a, b, c, d) = (bound(hh), bound(hh), bound(ww), bound(ww));
        incl_in_range($rk, b, hh);
        incl_in_range($ck, d, ww);
        let (rs, rsel) = $crate::c07_sel!($rk, a, b);
        let (cs, csel) = $crate::c07_sel!($ck, c, d);
        if $t0 {
            model = model.transpose();
        }
        model = model.view(rsel, csel);
        if $t1 {
            model = model.transpose();
        }
        let (a2, b2, c2, d2) = (bound(MAXD), bound(MAXD), bound(MAXD), bound(MAXD));
        incl_in_range($rk2, b2, model.h);
        incl_in_range($ck2, d2, model.w);
        let (rs2, rsel2) = $crate::c07_sel!($rk2, a2, b2);
        let (cs2, csel2) = $crate::c07_sel!($ck2, c2, d2);
        let model2 = model.view(rsel2, csel2);
        $crate::witness!(h < 2 || w < 2 || (model2.h >= 1 && model2.w >= 1), "non-empty window");
        $crate::witness!(model2.h == 0, "empty window");
        // the four combinations of transposes are four different static types
        if $t0 && $t1 {
            let t = base.as_ref().transpose();
            let v = t.view(rs, cs).transpose();
            check_read(&v, &model);
            check_read(&v.view(rs2, cs2), &model2);
        } else if $t0 {
            let t = base.as_ref().transpose();
            let v = t.view(rs, cs);
            check_read(&v, &model);
            check_read(&v.view(rs2, cs2), &model2);
        } else if $t1 {
            let v = base.view(rs, cs).transpose();
            check_read(&v, &model);
            check_read(&v.view(rs2, cs2), &model2);
        } else {
            let v = base.view(rs, cs);
            check_read(&v, &model);
            check_read(&v.view(rs2, cs2), &model2);
        }
        std::mem::forget(base);
    }};
}

/// mutable chain: [transpose] view_mut [transpose], then one mutation `op` through the view
/// op 0: iter_mut (distinct references), 1: fill, 2: clear, 3: fill_with, 4: insert, 5: get_mut band
#[macro_export]
macro_rules! c07_write_case {
    ($h:expr, $w:expr, $t0:expr, $t1:expr, $rk:tt, $ck:tt, $op:expr) => {{
        use surf_n_term::{Position, Surface, SurfaceMut};
        use $crate::c07::*;
        let (h, w): (usize, usize) = ($h, $w);
        let mut base = base_surface(h, w);
        let mut model = Model::base(h, w);
        let (hh, ww) = if $t0 { (w, h) } else { (h, w) };
        let (a, b, c, d) = (bound(hh), bound(hh), bound(ww), bound(ww));
        incl_in_range($rk, b, hh);
        incl_in_range($ck, d, ww);
        let (rs, rsel) = $crate::c07_sel!($rk, a, b);
        let (cs, csel) = $crate::c07_sel!($ck, c, d);
        if $t0 {
            model = model.transpose();
        }
        model = model.view(rsel, csel);
        if $t1 {
            model = model.transpose();
        }
        $crate::witness!(h < 2 || w < 2 || (model.h >= 1 && model.w >= 1), "non-empty window");
        let ins_pos = Position::new($crate::nd::range_usize(0, MAXD), $crate::nd::range_usize(0, MAXD));
        {
            if $t0 && $t1 {
                let mut v = base.as_mut().transpose().view_owned(rs, cs).transpose();
                mutate(&mut v, &model, $op, ins_pos);
            } else if $t0 {
                let mut v = base.as_mut().transpose().view_owned(rs, cs);
                mutate(&mut v, &model, $op, ins_pos);
            } else if $t1 {
                let mut v = base.view_mut(rs, cs).transpose();
                mutate(&mut v, &model, $op, ins_pos);
            } else {
                let mut v = base.view_mut(rs, cs);
                mutate(&mut v, &model, $op, ins_pos);
            }
        }
        let op: usize = $op;
        let start = if op == 4 { ins_pos.row * model.w + ins_pos.col } else { 0 };
        let mw = model.w;
        check_base_after(&base, h, w, &model, |i, j, idx| match op {
            0 => MARK + (i * mw + j) as u8,
            1 => MARK,
            2 => 0,
            3 => idx.wrapping_add(MARK),
            4 => {
                // insert writes 3 items in reading order starting at `ins_pos`
                let k = i * mw + j;
                if ins_pos.col < mw && k >= start && k < start + 3 { MARK + (k - start) as u8 } else { idx }
            }
            _ => if (i + j) % 2 == 0 { MARK } else { idx },
        });
        std::mem::forget(base);
    }};
}

pub fn mutate<S: SurfaceMut<Item = u8>>(v: &mut S, model: &Model, op: usize, ins_pos: Position) {
    assert!(v.height() == model.h && v.width() == model.w, "C07: view has a wrong size");
    if op == 0 {
        // every reference handed out is written with a distinct marker: two references to the
        // same cell would leave one marker missing
        let mut iter = v.iter_mut();
        let mut k = 0;
        while k < MAXD * MAXD {
            if k < model.h * model.w {
                match iter.next() {
                    Some(cell) => *cell = MARK + k as u8,
                    None => assert!(false, "C07: mutable iteration yields fewer than height*width items"),
                }
            }
            k += 1;
        }
        assert!(iter.next().is_none(), "C07: mutable iteration yields more than height*width items");
    } else if op == 1 {
        v.fill(MARK);
    } else if op == 2 {
        v.clear();
    } else if op == 3 {
        let (mh, mw) = (model.h, model.w);
        v.fill_with(|pos, item| {
            assert!(pos.row < mh && pos.col < mw, "C07: fill_with visits a position outside the window");
            item.wrapping_add(MARK)
        });
    } else if op == 4 {
        // `insert` addresses a row-major position; positions with col >= width are not window positions
        if ins_pos.col < model.w {
            v.insert(ins_pos, [MARK, MARK + 1, MARK + 2]);
        }
    } else {
        let mut i = 0;
        while i <= MAXD {
            let mut j = 0;
            while j <= MAXD {
                let got = v.get_mut(Position::new(i, j));
                if i < model.h && j < model.w {
                    match got {
                        Some(cell) => {
                            assert!(*cell == model.m[i][j], "C07: get_mut returns a wrong cell");
                            if (i + j) % 2 == 0 {
                                *cell = MARK;
                            }
                        }
                        None => assert!(false, "C07: window cell reported absent"),
                    }
                } else {
                    assert!(got.is_none(), "C07: position outside the window reported present");
                }
                j += 1;
            }
            i += 1;
        }
    }
}
