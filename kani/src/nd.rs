//! Source of nondeterministic values.
//!
//! Under Kani every value is `kani::any()`; in a native build the values are taken, in
//! call order, from the byte vectors of a Kani concrete-playback counterexample, so the
//! very same harness body can be replayed against the real crate.

pub trait Nd: Sized {
    fn nd() -> Self;
}

pub fn any<T: Nd>() -> T {
    T::nd()
}

#[cfg(kani)]
pub fn assume(cond: bool) {
    kani::assume(cond)
}

#[cfg(not(kani))]
pub fn assume(cond: bool) {
    if !cond {
        std::panic::panic_any(native::AssumptionViolated)
    }
}

/// reachability witness: under Kani a `cover` property, natively nothing
#[macro_export]
macro_rules! witness {
    ($cond:expr, $msg:literal) => {
        #[cfg(kani)]
        kani::cover!($cond, $msg);
        #[cfg(not(kani))]
        {
            let _ = $cond;
        }
    };
}

macro_rules! nd_prim {
    ($($t:ty),*) => {$(
        impl Nd for $t {
            #[cfg(kani)]
            fn nd() -> Self { kani::any() }
            #[cfg(not(kani))]
            fn nd() -> Self {
                <$t>::from_le_bytes(native::take::<{ std::mem::size_of::<$t>() }>())
            }
        }
    )*};
}
nd_prim!(u8, u16, u32, u64, u128, usize, i8, i16, i32, i64, i128, isize);

impl Nd for bool {
    #[cfg(kani)]
    fn nd() -> Self {
        kani::any()
    }
    #[cfg(not(kani))]
    fn nd() -> Self {
        native::take::<1>()[0] & 1 != 0
    }
}

impl<const N: usize> Nd for [u8; N] {
    #[cfg(kani)]
    fn nd() -> Self {
        kani::any()
    }
    #[cfg(not(kani))]
    fn nd() -> Self {
        native::take::<N>()
    }
}

/// value in `lo..=hi`
pub fn range_usize(lo: usize, hi: usize) -> usize {
    let v: usize = any();
    assume(v >= lo && v <= hi);
    v
}

pub fn range_u8(lo: u8, hi: u8) -> u8 {
    let v: u8 = any();
    assume(v >= lo && v <= hi);
    v
}

#[cfg(not(kani))]
pub mod native {
    use std::cell::RefCell;
    use std::collections::VecDeque;

    pub struct AssumptionViolated;

    thread_local! {
        static VALUES: RefCell<VecDeque<u8>> = RefCell::new(VecDeque::new());
        static EXHAUSTED: RefCell<bool> = RefCell::new(false);
    }

    /// install the concrete values (concatenation of the playback byte vectors: every
    /// `any()` of a primitive consumes exactly `size_of` bytes, in call order)
    pub fn install(values: &[Vec<u8>]) {
        VALUES.with(|v| {
            let mut v = v.borrow_mut();
            v.clear();
            for value in values {
                v.extend(value.iter().copied());
            }
        });
        EXHAUSTED.with(|e| *e.borrow_mut() = false);
    }

    pub fn exhausted() -> bool {
        EXHAUSTED.with(|e| *e.borrow())
    }

    pub fn remaining() -> usize {
        VALUES.with(|v| v.borrow().len())
    }

    pub fn take<const N: usize>() -> [u8; N] {
        let mut out = [0u8; N];
        VALUES.with(|v| {
            let mut v = v.borrow_mut();
            for slot in out.iter_mut() {
                match v.pop_front() {
                    Some(b) => *slot = b,
                    None => EXHAUSTED.with(|e| *e.borrow_mut() = true),
                }
            }
        });
        out
    }
}
