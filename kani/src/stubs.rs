//! Stubs shared by harnesses (each one is part of the claim of the harness using it).
