//! Stubs shared by harnesses (each one is part of the claim of the harness using it).
//!
//! * logging: every `tracing::` macro reaches a `thread_local!` with a destructor, which
//!   kani-compiler 0.68 cannot compile; logging is never the subject of a property.
//! * `RandomState::new`: reads OS randomness; replaced by fixed keys (hash order is not
//!   observable in the harnesses that use it).
use tracing_core::{Interest, Metadata, callsite::DefaultCallsite, field::ValueSet};

pub fn interest_never(_callsite: &'static DefaultCallsite) -> Interest {
    Interest::never()
}

pub fn is_enabled_false(_meta: &'static Metadata<'static>, _interest: Interest) -> bool {
    false
}

pub fn dispatch_nothing<'a>(_meta: &'static Metadata<'static>, _fields: &'a ValueSet<'_>)
where
    'a: 'a,
{
}

pub fn span_none(_meta: &'static Metadata<'static>, _values: &ValueSet<'_>) -> tracing::Span {
    tracing::Span::none()
}

pub fn random_state_fixed() -> std::hash::RandomState {
    // SAFETY: RandomState is two u64 keys
    unsafe { std::mem::transmute((0x0123_4567_89ab_cdefu64, 0x0fed_cba9_8765_4321u64)) }
}
