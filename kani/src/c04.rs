//! C04 — every well-formed terminal report decodes to what it encodes.
//!
//! A harness-side protocol printer (own decimal formatter, no `fmt`) renders symbolic
//! parameters at concrete digit positions (shape = digits per field). The bytes must be
//! ACCEPTED by the production automaton with the family's matcher as first tag (a rejected
//! legitimate report is a violation), and the real payload decoder must return exactly the
//! transmitted values.
use crate::c02::Table;
use crate::nd::{any, assume};
use surf_n_term::decoder::verif_hooks as dh;
use surf_n_term::{DecMode, DecModeStatus, KeyMod, KeyName, Position, TerminalEvent};

/// symbolic number with exactly `D` decimal digits (no leading zero unless D == 1),
/// written into `out` at `pos`; returns the value
pub fn digits<const D: usize>(out: &mut [u8], pos: usize) -> usize {
    let mut v = 0usize;
    let mut i = 0;
    while i < D {
        let d: u8 = any();
        assume(d <= 9);
        if i == 0 && D > 1 {
            assume(d >= 1);
        }
        out[pos + i] = b'0' + d;
        v = v * 10 + d as usize;
        i += 1;
    }
    v
}

/// cursor position report `CSI row ; col R` (1-based on the wire)
pub fn cursor_case<const N: usize, const DR: usize, const DC: usize>(table: &Table) {
    let mut data = [0u8; N];
    data[0] = 0x1b;
    data[1] = b'[';
    let row = digits::<DR>(&mut data, 2);
    data[2 + DR] = b';';
    let col = digits::<DC>(&mut data, 3 + DR);
    data[3 + DR + DC] = b'R';
    assume(row >= 1 && col >= 1);
    // `CSI 1 ; n R` is also a modified F3: resolved in favour of the key (excluded by the statement)
    assume(!(DR == 1 && row == 1 && DC == 1));
    assert!(table.accepts(&data), "C04: well-formed cursor report not recognised as a cursor report");
    let ev = dh::event_matcher_decode(1, &data);
    witness!(row >= 2 && col >= 2, "report printed");
    match &ev {
        Some(TerminalEvent::CursorPosition(pos)) => {
            assert!(*pos == Position::new(row - 1, col - 1), "C04: cursor report decoded to another position");
        }
        _ => assert!(false, "C04: cursor report not decoded"),
    }
    std::mem::forget(ev);
}

/// SGR mouse report `CSI < b ; col ; row (M|m)`
pub fn mouse_case<const N: usize, const DB: usize, const DC: usize, const DR: usize>(table: &Table) {
    let mut data = [0u8; N];
    data[0] = 0x1b;
    data[1] = b'[';
    data[2] = b'<';
    let b = digits::<DB>(&mut data, 3);
    data[3 + DB] = b';';
    let col = digits::<DC>(&mut data, 4 + DB);
    data[4 + DB + DC] = b';';
    let row = digits::<DR>(&mut data, 5 + DB + DC);
    let press: bool = any();
    data[5 + DB + DC + DR] = if press { b'M' } else { b'm' };
    assume(row >= 1 && col >= 1);
    assert!(table.accepts(&data), "C04: well-formed mouse report not recognised");
    let ev = dh::event_matcher_decode(7, &data);
    witness!(b >= 4 && !press, "modified release");
    match &ev {
        Some(TerminalEvent::Mouse(m)) => {
            assert!(m.pos == Position::new(row - 1, col - 1), "C04: mouse report decoded to another position");
            // xterm: 4 shift, 8 meta, 16 control
            let mut want = KeyMod::EMPTY;
            if b & 4 != 0 {
                want = want | KeyMod::SHIFT;
            }
            if b & 8 != 0 {
                want = want | KeyMod::ALT;
            }
            if b & 16 != 0 {
                want = want | KeyMod::CTRL;
            }
            if press {
                want = want | KeyMod::PRESS;
            }
            assert!(m.mode == want, "C04: mouse modifiers differ from the transmitted mask");
            // the library's fixed naming table for the button code
            let want_name = if b & 64 != 0 {
                match b & 3 {
                    0 => KeyName::MouseWheelDown,
                    1 => KeyName::MouseWheelUp,
                    _ => KeyName::MouseMove,
                }
            } else {
                match b & 3 {
                    0 => KeyName::MouseLeft,
                    1 => KeyName::MouseMiddle,
                    2 => KeyName::MouseRight,
                    _ => KeyName::MouseMove,
                }
            };
            assert!(m.name == want_name, "C04: mouse button differs from the naming table");
        }
        _ => assert!(false, "C04: mouse report not decoded"),
    }
    std::mem::forget(ev);
}

pub const DEC_MODES: [(usize, DecMode); 9] = [
    (25, DecMode::VisibleCursor),
    (7, DecMode::AutoWrap),
    (80, DecMode::SixelScrolling),
    (1000, DecMode::MouseReport),
    (1003, DecMode::MouseMotions),
    (1006, DecMode::MouseSGR),
    (1049, DecMode::AltScreen),
    (2026, DecMode::SynchronizedOutput),
    (2004, DecMode::BracketedPaste),
];

/// DECRPM `CSI ? mode ; status $ y` for the mode with index `M` (concrete digits) and any status
pub fn decmode_case<const N: usize, const M: usize>(table: &Table) {
    let (number, mode) = DEC_MODES[M];
    let mut data = [0u8; N];
    data[0] = 0x1b;
    data[1] = b'[';
    data[2] = b'?';
    // concrete decimal digits of the mode number
    let nd = if number >= 1000 { 4 } else if number >= 10 { 2 } else { 1 };
    let mut k = 0;
    let mut div = if nd == 4 { 1000 } else if nd == 2 { 10 } else { 1 };
    while k < nd {
        data[3 + k] = b'0' + ((number / div) % 10) as u8;
        div = if div >= 10 { div / 10 } else { 1 };
        k += 1;
    }
    data[3 + nd] = b';';
    let status: u8 = any();
    assume(status <= 4);
    data[4 + nd] = b'0' + status;
    data[5 + nd] = b'$';
    data[6 + nd] = b'y';
    assert!(table.accepts(&data), "C04: well-formed mode report not recognised");
    let ev = dh::event_matcher_decode(2, &data);
    witness!(status == 4, "permanently reset");
    match &ev {
        Some(TerminalEvent::DecMode { mode: got_mode, status: got_status }) => {
            assert!(*got_mode == mode, "C04: mode report decoded to another mode");
            let want = match status {
                0 => DecModeStatus::NotRecognized,
                1 => DecModeStatus::Enabled,
                2 => DecModeStatus::Disabled,
                3 => DecModeStatus::PermanentlyEnabled,
                _ => DecModeStatus::PermanentlyDisabled,
            };
            assert!(*got_status == want, "C04: mode report decoded to another status");
        }
        _ => assert!(false, "C04: mode report of a mode the library can set is not decoded"),
    }
    std::mem::forget(ev);
}

/// kitty keyboard level report `CSI ? level u`
pub fn kbdlevel_case<const N: usize, const D: usize>(table: &Table) {
    let mut data = [0u8; N];
    data[0] = 0x1b;
    data[1] = b'[';
    data[2] = b'?';
    let level = digits::<D>(&mut data, 3);
    data[3 + D] = b'u';
    assert!(table.accepts(&data), "C04: well-formed keyboard level report not recognised");
    let ev = dh::event_matcher_decode(6, &data);
    witness!(level >= 1, "non-zero level");
    match &ev {
        Some(TerminalEvent::KeyboardLevel(got)) => assert!(*got == level, "C04: keyboard level decoded to another value"),
        _ => assert!(false, "C04: keyboard level report not decoded"),
    }
    std::mem::forget(ev);
}

/// kitty graphics response `APC G i=<id> ; <message> ST` with a one digit id and a three
/// character message (any printable ASCII, so `;` and `,` and `=` included): the event carries
/// exactly the id and, since the message is not `OK`, exactly the message text
pub fn kittyimg_case(table: &Table) {
    let mut data = [0u8; 12];
    data[0] = 0x1b;
    data[1] = b'_';
    data[2] = b'G';
    data[3] = b'i';
    data[4] = b'=';
    let id = digits::<1>(&mut data, 5);
    data[6] = b';';
    let msg: [u8; 3] = any();
    assume(msg[0] >= 0x20 && msg[0] < 0x7f && msg[1] >= 0x20 && msg[1] < 0x7f && msg[2] >= 0x20 && msg[2] < 0x7f);
    data[7] = msg[0];
    data[8] = msg[1];
    data[9] = msg[2];
    data[10] = 0x1b;
    data[11] = b'\\';
    assert!(table.accepts(&data), "C04: well-formed graphics response not recognised");
    let ev = dh::event_matcher_decode(5, &data);
    witness!(msg[1] == b';', "message containing the separator");
    match &ev {
        Some(TerminalEvent::KittyImage { id: got_id, placement, error }) => {
            assert!(*got_id == id as u64 && placement.is_none(), "C04: graphics response decoded to another id");
            match error {
                Some(text) => {
                    let t = text.as_bytes();
                    assert!(t.len() == 3 && t[0] == msg[0] && t[1] == msg[1] && t[2] == msg[2],
                            "C04: graphics response message differs from the transmitted text");
                }
                None => assert!(false, "C04: error message of a graphics response lost"),
            }
        }
        _ => assert!(false, "C04: graphics response not decoded"),
    }
    std::mem::forget(ev);
}
