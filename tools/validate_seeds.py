#!/usr/bin/env python3
"""Validate seeded defects produced by sub-agents and import them into /verif/seeded.

usage: validate_seeds.py <src-dir-with-patch.diff+demo.rs> <seed-id> <property>
Runs in a scratch worktree of /repo (removed afterwards):
  1. unchanged tree + demo  -> demo must pass
  2. patched tree           -> must build, the 62 existing tests must pass, demo must fail
"""
import json, os, re, shutil, subprocess, sys, time

def run(cmd, cwd, env=None, timeout=1800):
    p = subprocess.run(cmd, cwd=cwd, env=env, stdout=subprocess.PIPE, stderr=subprocess.STDOUT, text=True, timeout=timeout)
    return p.returncode, p.stdout

def main():
    src, sid, prop = sys.argv[1:4]
    wt = "/tmp/sv/wt"
    tgt = "/tmp/sv/target"
    os.makedirs("/tmp/sv", exist_ok=True)
    if os.path.exists(wt):
        subprocess.run(["git", "-C", "/repo", "worktree", "remove", "--force", wt])
    subprocess.run(["git", "-C", "/repo", "worktree", "add", "-q", "--detach", wt, "HEAD"], check=True)
    env = dict(os.environ, CARGO_TARGET_DIR=tgt, CARGO_NET_OFFLINE="true")
    ran = []
    try:
        rca, outa = run(["git", "apply", "--whitespace=nowarn", os.path.join(src, "patch.diff")], wt)
        ran.append({"cmd": "git apply patch.diff", "rc": rca})
        if rca != 0:
            print("patch does not apply:\n" + outa)
        rc1, out1 = run(["cargo", "test", "--workspace", "--no-fail-fast", "--offline"], wt, env)
        m = re.findall(r"test result: (\w+)\. (\d+) passed; (\d+) failed", out1)
        ran.append({"cmd": "cargo test --workspace --no-fail-fast --offline (patched, demo absent)", "rc": rc1, "results": m})
        suite_ok = rc1 == 0 and bool(m) and int(m[0][1]) == 62
        os.makedirs(os.path.join(wt, "tests"), exist_ok=True)
        shutil.copy(os.path.join(src, "demo.rs"), os.path.join(wt, "tests", "seed_demo.rs"))
        rc2, out2 = run(["cargo", "test", "--offline", "--test", "seed_demo"], wt, env)
        ran.append({"cmd": "cargo test --offline --test seed_demo (patched)", "rc": rc2})
        demo_fails_patched = rc2 != 0 and "test result: FAILED" in out2
        run(["git", "checkout", "--", "src"], wt)
        rc0, out0 = run(["cargo", "test", "--offline", "--test", "seed_demo"], wt, env)
        ran.append({"cmd": "cargo test --offline --test seed_demo (unchanged tree)", "rc": rc0})
        demo_pass_unchanged = rc0 == 0
        ok = demo_pass_unchanged and rca == 0 and suite_ok and demo_fails_patched
        print("%s: demo_pass_unchanged=%s applies=%s suite_ok=%s demo_fails_patched=%s => %s" % (
            sid, demo_pass_unchanged, rca == 0, suite_ok, demo_fails_patched, "VALID" if ok else "REJECTED"))
        if not ok:
            print(out0[-1500:] if not demo_pass_unchanged else "")
            print(out1[-1500:] if not suite_ok else "")
            print(out2[-800:] if not demo_fails_patched else "")
            return 1
        dst = os.path.join("/verif/seeded", sid)
        os.makedirs(dst, exist_ok=True)
        shutil.copy(os.path.join(src, "patch.diff"), dst)
        shutil.copy(os.path.join(src, "demo.rs"), dst)
        notes = ""
        if os.path.exists(os.path.join(src, "notes.md")):
            shutil.copy(os.path.join(src, "notes.md"), dst)
            notes = open(os.path.join(src, "notes.md")).read()
        meta = {"id": sid, "property": prop,
                "base_commit": subprocess.run(["git", "-C", "/repo", "rev-parse", "--short", "HEAD"], capture_output=True, text=True).stdout.strip(),
                "needs_to_manifest": (re.search(r"(?is)(trigger|condition|manifest)[^\n]*\n(.{0,600})", notes) or [None, None, ""])[2].strip()[:600],
                "validated": {"demo_passes_on_unchanged_tree": True, "patch_applies": True,
                              "existing_62_tests_pass_with_patch": True, "demo_fails_with_patch": True},
                "ran": ran, "validated_at": time.strftime("%Y-%m-%dT%H:%M:%SZ", time.gmtime()),
                "origin": "fresh sub-agent given only the property text and a scratch worktree"}
        json.dump(meta, open(os.path.join(dst, "meta.json"), "w"), indent=1)
        return 0
    finally:
        subprocess.run(["git", "-C", "/repo", "worktree", "remove", "--force", wt])

if __name__ == "__main__":
    sys.exit(main())
