#!/usr/bin/env python3
"""Writes /verif/MANIFEST.json from the table below (kept in one place so it stays valid)."""
import json, subprocess

CLAIMED = {
 "C02": ("Bounded model checking (Kani/CBMC) of the decoding kernels (number, UTF-8, key code, hex) on every input of a concrete length, and of every payload decoder on every byte string of a concrete length that satisfies the EXACT call-site precondition read off the production automaton (table dumped from the real compile()); table facts (every accepting state tagged, terminal <=> empty row) checked on the dumped tables; tokenizer totality via C03's refinement harnesses.",
         "Partial: sequences up to shortest-accepted-length + 0..3 per family; composition of driver x table x payload decoder is argued, not one symbolic run; parse_color, unix.rs read loop, tracing formatting outside."),
 "C03": ("Bounded model checking: step refinement (one real decode_byte from an arbitrary concrete-shape state over a FULLY SYMBOLIC 2..3 state DFA) and call refinement (one real decode() call) of the real tokenizer to a reference tokenizer; chunk independence and leftmost-longest decided on the reference tokenizer for every small DFA and input.",
         "DFAs <= 3 states x 3 symbols, buffers <= 3 bytes, model inputs <= 5 symbols; production tables are data for the same generic driver. Trusted: reference tokenizer (kani/src/c03.rs)."),
 "C04": ("Bounded model checking: protocol printers render symbolic parameters at concrete digit positions; the production automaton table must accept them with the family's matcher and the real payload decoder must return exactly the transmitted coordinates / modifier mask / button / mode / status / level.",
         "Partial: cursor, DECRPM, keyboard-level families (1 digit shapes quick, 2-3 digits thorough), SGR mouse shapes thorough only (16 min per shape); every printable Unicode scalar accepted by the event automaton (SMT over the dumped table); in-order rescan after a longest match via two tokenizer step shapes; other families and the static key table outside."),
 "C05": ("Bounded model checking of TTYEncoder::encode per command variant (cursor, erase, scroll, DEC modes incl. the kitty keyboard level around the alternate screen, keyboard level, colour set/query, XTGETTCAP, title, raw, characters, the ten parameterless commands): the emitted bytes are parsed back by a harness-side ECMA-48/xterm reader and compared with the command for all parameter values in the stated ranges.",
         "Partial: Face/FaceModify (SGR built through the encoder's own Chunks writer) do not finish within 40 min and are experimental only; positions/counts <= 99999, signed moves in +-99999 plus the i32 extremes; EightBit/Gray depths (f32) outside; payload strings <= 3 bytes."),
 "C06": ("Bounded model checking: FaceModify::apply == SGR semantics for every face x record (and two records in sequence); sgr_color on the encoder's true-colour parameter groups followed by further parameters (symbolic components at concrete digit widths); encoder output for every character read back by the command payload decoder; SMT over the dumped command automaton: every Unicode scalar except ESC is accepted as a character; 22 fixed SGR parameter strings through the real sgr_face (concrete inputs, auxiliary).",
         "Partial: sgr_face on symbolic parameter strings does not fit the solver (experimental tier); the Face/FaceModify encoder (Chunks) likewise, so the full encode->decode round trip is argued from the parts; TTYCellWriter end-to-end and chunking (C03) outside."),
 "C07": ("Bounded model checking of the real view/transpose/iter/iter_mut/get/get_mut/fill/clear/fill_with/insert code on concrete base sizes (<= 3x4) with symbolic signed bounds against an index-matrix model; distinctness of iter_mut references via unique markers.",
         "Base surfaces <= 3x4, chains transpose-view-transpose-view, selector forms per instance; hand-built strides outside."),
 "C08": ("Bounded model checking of view_bounds for each of the 10 integer types x 6 selector forms and RangeFull: for every bound value of the type and every axis length n <= 2^32 (thorough: n < 2^62) the result equals an i128 python-slice reference and satisfies 0 <= start < end <= n; type independence follows from the common mathematical reference.",
         "Trusted: 40-line reference resolver. Inclusive end below -n: either clamping accepted (statement leaves it open)."),
 "C09": ("Bounded model checking of Cell::layout (the placement kernel shared by Text layout/render and TerminalWriter): one inductive step from any tracked (size, cursor) for every cell class, both wrap modes, any max_width.",
         "Partial: surface containment of TerminalWriter::put_cell / Text::render, chunk independence of the io::Write adapters and whole-text exactly-once are outside (the step is the inductive kernel)."),
 "C10": ("Bounded model checking of the layout arithmetic over statically typed probe children following the View contract: Align::align (all usize), BoxConstraint::clamp, Container::layout (any size/margins/alignments), flex_layout with 0..1 (thorough 2..3) children, every direction and justification.",
         "Partial: trait-object trees, flex factors (f64), leaf painting and hit testing outside."),
 "C11": ("Bounded model checking of the kitty identifier arithmetic (bijection position <-> placement id on coordinates < 65536) and of the bytes erase() emits for a 1x1 image at any position (image id and placement id equal to those draw uses); draw of a 1x1 image in the thorough tier.",
         "Partial: images > 1x1 (chunking), handle()/error responses, multi-draw histories outside."),
 "C13": ("Bounded model checking of the k-d tree: KDTree::new on 1..3 symbolic colours establishes the k-d invariant and a permutation of indices; KDTree::find on fixed shapes under exactly that invariant returns a minimal-distance colour; OcTreePath bit interleaving and OcTreeInfo monoid laws for all values.",
         "Partial: <= 3 (thorough 4) palette colours, 4-bit channels for 3-node trees in quick; octree insert/prune, Image::quantize pipeline, dithering outside."),
 "C14": ("Bounded model checking of Base64Encoder (every byte string of length 0..6, every 2-way and many 3-way write partitions) and Base64Decoder (from concrete-shape representation states, every read schedule pattern of sizes 1..4, destination buffers 1..16, bad lengths) against an RFC 4648 reference.",
         "Decoder round trips with symbolic padding structure (>= 2 payload bytes) are thorough-only (20 GB+); 48/64-byte buffer boundary outside."),
 "C15": ("SMT (z3, incremental) over tables produced by the real combinators and NFA::compile() run natively: per enumerated expression and for EVERY input string up to 8 (thorough 12) symbols, table walk == independent epsilon-free position automaton, reported tags == matching alternatives, terminal => empty row.",
         "Claim is per enumerated expression (all depth <= 2, seeded samples of depth 3/4, tagged choices); the construction itself runs natively, the input string is symbolic."),
 "C16": ("Bounded model checking: one step of every IOQueue operation (write, flush, consume, consume_with incl. short writes and errors, read, clear_but_last) from every small valid representation state, refinement to the readable byte sequence; len() == readable bytes; drop keeps exactly the chunk in transmission.",
         "Partial: UnixTerminal::poll against a real tty (FFI/select) outside; queue shapes <= 2 chunks quick, 3 thorough."),
}

NA = {
 "C01": "TerminalRenderer::frame is monolithic over SurfaceOwned<Cell>; one frame of a concrete 1x2 surface exceeds 24 GB under CBMC (see DESIGN.md section 3); no smaller real function to drive",
 "C12": "SixelImageHandler::draw runs f32 channel reduction, octree quantisation, k-d tree construction, Floyd-Steinberg diffusion and HashMap/HashSet band assembly before the first byte; smallest legal image needs 48 boxed octree levels: out of reach for bounded model checking",
 "C17": "threads, signals, select and termios: Kani models neither concurrency nor FFI and there is no pure kernel to extract",
 "C18": "BTreeMap<Key, Result<V, KeyMap<V>>> is a recursive heap type; one registration plus two lookups used 16 GB without finishing; parsers are string-library code",
 "C19": "serde visitors over serde_json with String/format! error paths; the one arithmetic kernel (Image size product) did not finish within 800 s through a hand-written MapAccess; honest not-applicable under this technique family (the size-product overflow found by reading is described in DESIGN.md)",
 "C20": "f32 throughout with powf (not modelled) and SIMD dpps (unsupported intrinsic); two luminances did not finish in 900 s; the natural procedure is exhaustive enumeration of 2^24 colours, a different technique family",
}

def main():
    hooks = subprocess.run(["git", "-C", "/repo", "log", "--format=%h %s"], capture_output=True, text=True).stdout.splitlines()
    hook_commits = [l.split()[0] for l in hooks if "verif-hooks" in l]
    m = {
     "version": 1,
     "setup_cmd": "./check --setup",
     "hooks": {"guard": "verif-hooks",
               "enable": "cargo feature `verif-hooks` of surf_n_term (the harness crates /verif/kani and /verif/tablegen depend on /repo with features=[\"verif-hooks\"]; manual: cargo build --features verif-hooks)",
               "baseline_off_cmd": "cd /repo && cargo test --workspace --no-fail-fast --offline",
               "source_commits": hook_commits, "add_only": True},
     "engines": [
        {"name": "kani", "path": "/verif/kani", "serves_properties": sorted(k for k in CLAIMED if k != "C15"),
         "kind_free_text": "Kani 0.68 / CBMC 6.11 (cadical) proof harnesses over the real crate (path dependency on /repo); counterexamples replayed natively by /verif/kani/src/bin/replay.rs"},
        {"name": "tablegen+z3", "path": "/verif/tablegen", "serves_properties": ["C15", "C02", "C04"],
         "kind_free_text": "native generator running the real NFA combinators/compile() and dumping tables; SMT-LIB queries over the tables decided by z3 (lib/smtcheck.py); tables also compiled into the Kani crate as static data"}],
     "checks": [],
     "notes": "Solver-based bounded checking of the real code; see DESIGN.md. A check exits 0 only if every instance was decided and held; exit 1 + VIOLATION line only for a counterexample that was replayed natively; exit 2 = inconclusive (timeout / out of memory / vacuous instance / non-replaying model), never success. known_findings.json lists defects found (all repaired by fix: commits so far).",
     "not_applicable": [{"property_id": k, "reason": v} for k, v in sorted(NA.items())],
    }
    for pid in sorted(CLAIMED):
        text, note = CLAIMED[pid]
        m["checks"].append({
          "property_id": pid,
          "quick_cmd": "./check %s --tier quick" % pid,
          "thorough_cmd": "./check %s --tier thorough" % pid,
          "evidence_file": "/verif/evidence/%s.json" % pid,
          "replay_cmd_template": "./check %s --replay {path}" % pid,
          "engine": "tablegen+z3" if pid == "C15" else "kani",
          "level_claimed": {"category": "model_checking", "text": text, "design_ref": "DESIGN.md section 1, %s" % pid},
          "level_note": note + " Trusted base: Kani/CBMC/cadical (z3 for C15), rustc MIR semantics, the harness-side reference models, the stubs listed in the evidence.",
          "technique": ("SMT solving (z3) over tables produced natively by the real compile(); symbolic input strings" if pid == "C15"
                        else "bounded model checking with Kani/CBMC (SAT) over the compiled crate, symbolic inputs, native replay of counterexamples"),
        })
    json.dump(m, open("/verif/MANIFEST.json", "w"), indent=1)
    print("claimed:", sorted(CLAIMED), "n/a:", sorted(NA))

if __name__ == "__main__":
    main()
