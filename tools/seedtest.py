#!/usr/bin/env python3
"""Run the registered check of a property against a seeded defect.

usage: seedtest.py <seed-id> [quick|thorough] [extra check args...]
Applies /verif/seeded/<id>/patch.diff to /repo (working tree only), runs ./check, reverts.
Holds the check lock for the whole cycle so no other check ever sees the mutated tree.
Writes /verif/seeded/<id>/detection.json.
"""
import fcntl, json, os, re, subprocess, sys, time

def main():
    sid = sys.argv[1]
    tier = sys.argv[2] if len(sys.argv) > 2 else "quick"
    extra = sys.argv[3:]
    d = os.path.join("/verif/seeded", sid)
    meta = json.load(open(os.path.join(d, "meta.json")))
    prop = meta["property"]
    os.makedirs("/verif/.cache", exist_ok=True)
    lock = open("/verif/.cache/lock", "w")
    fcntl.flock(lock, fcntl.LOCK_EX)
    st = subprocess.run(["git", "-C", "/repo", "status", "--porcelain", "--untracked-files=no"], capture_output=True, text=True).stdout.strip()
    if st:
        print("refusing: /repo working tree is dirty:\n" + st)
        return 2
    a = subprocess.run(["git", "-C", "/repo", "apply", "--whitespace=nowarn", os.path.join(d, "patch.diff")], capture_output=True, text=True)
    if a.returncode != 0:
        print("patch does not apply: " + a.stderr)
        return 2
    start = time.time()
    # the committed evidence describes the unchanged tree: keep it, store the seeded run's evidence with the seed
    ev = "/verif/evidence/%s.json" % prop
    backup = open(ev).read() if os.path.exists(ev) else None
    try:
        env = dict(os.environ, VERIF_NOLOCK="1")
        p = subprocess.run(["./check", prop, "--tier", tier] + extra, cwd="/verif", env=env, capture_output=True, text=True)
    finally:
        subprocess.run(["git", "-C", "/repo", "checkout", "--", "."], check=True)
        if os.path.exists(ev):
            os.replace(ev, os.path.join(d, "evidence_with_seed.json"))
        if backup is not None:
            with open(ev, "w") as f:
                f.write(backup)
    out = p.stdout + p.stderr
    viol = re.findall(r"^VIOLATION .*$", out, re.M)
    failed = re.findall(r"^  (\w+) FAILED: (.*)$", out, re.M)
    res = {"seed": sid, "property": prop, "tier": tier, "extra_args": extra, "exit_code": p.returncode,
           "detected": p.returncode == 1 and bool(viol), "violation_lines": viol[:5],
           "failing_instances": [{"instance": a_, "checks": b_[:300]} for a_, b_ in failed[:10]],
           "wall_s": round(time.time() - start, 1), "at": time.strftime("%Y-%m-%dT%H:%M:%SZ", time.gmtime()),
           "tail": out[-1500:]}
    path = os.path.join(d, "detection.json")
    hist = []
    if os.path.exists(path):
        try:
            hist = json.load(open(path)).get("history", [])
        except Exception:
            hist = []
    hist.append({k: res[k] for k in ("tier", "exit_code", "detected", "at", "wall_s", "extra_args")})
    res["history"] = hist
    json.dump(res, open(path, "w"), indent=1)
    print("%s: property=%s tier=%s exit=%d detected=%s (%.0fs)" % (sid, prop, tier, p.returncode, res["detected"], res["wall_s"]))
    for v in viol[:3]:
        print("   " + v)
    for a_, b_ in failed[:3]:
        print("   %s: %s" % (a_, b_[:200]))
    return 0

if __name__ == "__main__":
    sys.exit(main())
