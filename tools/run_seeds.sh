#!/bin/bash
# usage: run_seeds.sh <seed-id>...   (sequential; each holds the check lock for its whole cycle)
cd /verif
for s in "$@"; do
  python3 tools/seedtest.py $s quick >> /tmp/seeds.log 2>&1
done
echo "done $(date)" >> /tmp/seeds.log
